module verif/sim

go 1.26.8

require (
	github.com/anishathalye/porcupine v1.3.0
	github.com/fogfish/golem/duct v0.0.0
	github.com/fogfish/golem/maplike v0.0.0
	github.com/fogfish/golem/pipe/v2 v2.0.0
	github.com/fogfish/golem/pure v0.10.1
	golang.org/x/tools v0.50.0
)

// The checks never build with this file: cmd/check writes a scratch go.mod
// (same requirements, replace lines pointing at the instrumented scratch copy
// of /repo's working tree) and builds with -modfile. These replace lines only
// make the module loadable for editing and `go vet`.
replace github.com/fogfish/golem/pipe/v2 => /repo/pipe

replace github.com/fogfish/golem/pure => /repo/pure

replace github.com/fogfish/golem/duct => /repo/duct

replace github.com/fogfish/golem/maplike => /repo/internal/maplike
