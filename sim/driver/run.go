package driver

import (
	"context"
	"fmt"
	"io"
	"log/slog"
	"sort"
	"strings"
	"testing"
	"testing/synctest"
	"time"

	"verif/sim/simrt"
)

// Scenario is what a property supplies.
type Scenario struct {
	Prop string
	// Gen draws a random plan (thorough selects the deeper bounds).
	Gen func(r *Rand, thorough bool) *Plan
	// GenIso draws a plan for an isolated run: one run in a process of its
	// own, used for workloads in which package-level state of the library
	// matters (two instances alive side by side). May be nil.
	GenIso func(r *Rand, thorough bool) *Plan
	// Enum lists the systematically enumerated plans of the tier (may be nil).
	Enum func(thorough bool) []*Plan
	// Build creates the system under test and the environment tasks. It runs
	// on the bubble's root goroutine before the first step.
	Build func(e *Env)
	// Final is the oracle evaluated when the scheduling loop has ended and
	// before clean-up.
	Final func(e *Env)
	// Post, when set, runs after the bubble has ended (outside it): the place
	// for oracles that need real time or their own goroutines (porcupine). It
	// may call e.FailPost.
	Post func(e *Env)
	// Valid rejects plans that are not meaningful workloads (used while
	// shrinking: e.g. an infinite generator that nobody ever stops).
	Valid func(p *Plan) bool
	// Nontrivial tells whether a finished run counts as non-trivial.
	Nontrivial func(e *Env, r *RunResult) bool
}

// RunResult is everything recorded about one run.
type RunResult struct {
	Viol                *Violation
	Infra               string // non-empty: infrastructure trouble (never a verdict)
	Steps               int
	VT                  time.Duration
	Hash                uint64
	Tape                []uint32
	Events              []string
	Tasks               []simrt.TaskInfo
	Faults              map[string]int
	Probes              map[string]int
	Cover               map[string]int
	States              map[uint64]struct{}
	SelMulti            int
	SelNonSrc           int
	MultiTask           int
	FairDef             int
	Decisions           int
	Preempts            int
	PoolEvict           int
	PoolReuse           int
	Quiescent           bool
	StepCap             bool
	Leaked              bool // the bubble ended with blocked goroutines (after clean-up)
	StepsAfterLastFault int
	NonTrivial          bool
}

const (
	horizon = time.Hour
)

func init() {
	// StdErr logs through slog's default logger: silence it (the sink is a stub).
	slog.SetDefault(slog.New(slog.NewTextHandler(io.Discard, nil)))
}

// Execute performs one simulated run of plan under chooser ch.
func Execute(t *testing.T, sc *Scenario, plan *Plan, ch *Chooser, maxSteps int, keepEvents bool) (res *RunResult) {
	// the cap is a livelock detector, not a budget: very many workers may
	// legitimately need many steps (n tasks contending for one lock take of
	// the order of n*n scheduling steps), so it grows with the worker count
	if w := max(plan.Par, twinPar(plan)); w > 64 {
		maxSteps *= 1 + w/64
	}
	if n := len(plan.Inputs); n > 4 {
		maxSteps *= 1 + n/4 // many producers and copiers contending for one lock or channel
	}
	elems := 0
	for _, in := range plan.Inputs {
		elems += len(in)
	}
	if elems > 500 {
		maxSteps *= 1 + elems/500 // thousands of elements, each worth dozens of steps
	}
	if x := plan.X("step_cap_x"); x > 1 {
		maxSteps *= x // plans that are long by design (a backlog of tens of thousands of values)
	}
	res = &RunResult{}
	defer func() {
		if x := recover(); x != nil {
			msg := fmt.Sprint(x)
			if strings.Contains(msg, "deadlock: main bubble goroutine has exited") {
				res.Leaked = true
				return
			}
			res.Infra = "panic outside the simulation: " + msg
		}
	}()
	var env *Env
	defer func() {
		if env != nil && res.Infra == "" && res.Viol == nil && sc.Post != nil {
			sc.Post(env)
			res.Viol = env.Viol
		}
	}()
	synctest.Test(t, func(t *testing.T) {
		s := simrt.New()
		simrt.S = s
		s.Choose = ch.Choose
		s.PreemptN = plan.PreemptN
		s.PoolEvict = plan.PoolEvict
		if keepEvents {
			s.MaxEvents = 20000
		} else {
			s.MaxEvents = 0
		}
		ctx, cancel := context.WithCancel(context.Background())
		if plan.X("ctx_deadline") == 1 && plan.CancelMs > 0 {
			// the context carries a deadline the library can see; the
			// canceller task cancels it one nanosecond earlier, so that the
			// moment of cancellation is an event of the recorded history
			cancel()
			ctx, cancel = context.WithDeadline(context.Background(), time.Now().Add(ms(plan.CancelMs)))
		}
		neverCancel := false
		if plan.X("ctx_deadline") == 3 && plan.CancelStep < 0 && plan.CancelMs == 0 && !plan.CancelAtEnd && plan.X("uses") <= 1 && plan.X("cancel_between") == 0 && plan.Twin == nil && neverCancelBudget(plan) {
			// a context that can never be cancelled (Done() == nil), for plans
			// that never cancel: context.Background, TODO, WithoutCancel
			cancel()
			switch plan.Seed0() % 3 {
			case 0:
				ctx = context.Background()
			case 1:
				ctx = context.TODO()
			default:
				ctx = context.WithoutCancel(ctx)
			}
			cancel = func() {}
			neverCancel = true
		}
		if plan.X("ctx_deadline") == 2 {
			// the context ends by expiry (Err = DeadlineExceeded) at the moment
			// the plan cancels it, whichever way that is
			cancel()
			dl := time.Now().Add(time.Hour)
			if plan.CancelMs > 0 {
				dl = time.Now().Add(ms(plan.CancelMs))
			}
			ctx, cancel = newExpiringCtx(dl)
		}
		e := &Env{S: s, Plan: plan, Ctx: ctx, cancel: cancel, NeverCancel: neverCancel, Abort: make(chan struct{}), Probes: map[string]int{}, Faults: map[string]int{}}
		if ctx.Done() != nil {
			s.Watch(ctx.Done(), &e.Cancelled)
		}
		if neverCancel {
			e.Probe("never_cancellable_context")
		}
		if plan.X("ctx_deadline") == 2 {
			e.Probe("context_ends_by_expiry")
		}
		env = e

		func() {
			defer func() {
				if x := recover(); x != nil {
					res.Infra = fmt.Sprint("scenario build panicked: ", x)
				}
			}()
			sc.Build(e)
		}()

		if plan.CancelMs > 0 {
			simrt.GoEnv("canceller", func() {
				d := ms(plan.CancelMs)
				if plan.X("ctx_deadline") == 1 {
					d -= time.Nanosecond
				}
				simrt.Sleep("canceller.sleep", d)
				if !simrt.Free() {
					e.Cancel("timer")
				}
			})
		}

		var buf []*simrt.Task
		steps := 0
		lastFaultStep := 0
		var lastActive, idle, lastEnvVT time.Duration
		lastEnvStep := 0
		nfaults := 0
		for res.Infra == "" {
			synctest.Wait()
			s.Settled()
			if e.OnStep != nil {
				e.OnStep()
			}
			if e.stop {
				break
			}
			if plan.CancelStep >= 0 && steps >= plan.CancelStep && !e.Cancelled.Load() {
				e.Cancel("step")
				lastEnvStep, lastEnvVT = steps, s.Now() // the cancel is an environment move
				continue
			}
			if n := total(e.Faults); n != nfaults {
				nfaults = n
				lastFaultStep = steps
			}
			buf = s.Runnable(buf)
			// "settled": only library tasks have run for a long stretch while
			// the virtual clock kept advancing, no environment task is runnable
			// or asleep — what is left is periodic library activity (a pacer
			// that ticks for ever is allowed to). Treated like quiescence, so
			// that a legitimately periodic goroutine is not mistaken for a
			// livelock; a loop that makes no virtual-time progress still runs
			// into the step cap.
			settled := false
			if len(buf) > 0 && steps-lastEnvStep >= 1500 && s.Now() > lastEnvVT {
				settled = true
				for _, t := range buf {
					if !t.Lib || !librarySite(t.Site) || t.Group == 3 {
						settled = false
					}
				}
				if settled && s.EnvAsleep() {
					settled = false
				}
				if settled {
					e.Probe("settled_with_periodic_library_activity")
				}
			}
			if len(buf) == 0 || settled {
				live, _ := s.Live()
				if live > 0 && !settled {
					tm := time.NewTimer(horizon)
					woke := false
					before := s.Now()
					select {
					case <-s.Wake():
						woke = true
					case <-tm.C:
					}
					tm.Stop()
					if woke {
						continue
					}
					idle += s.Now() - before // nothing was pending: this wait is not simulated activity
				}
				// nothing can ever happen again without a new environment move
				if (plan.CancelAtEnd || plan.CancelStep >= 0) && !e.Cancelled.Load() {
					e.Probe("cancel_at_quiescence")
					e.Cancel("quiescence")
					lastEnvStep, lastEnvVT = steps, s.Now()
					continue
				}
				if e.AtQuiescence != nil && e.AtQuiescence() {
					lastEnvStep, lastEnvVT = steps, s.Now()
					continue
				}
				if settled {
					lastEnvStep, lastEnvVT = steps, s.Now() // a new phase or a cancel needs its own stretch
				}
				e.Quiescent = true
				break
			}
			if steps >= maxSteps {
				if steps-lastEnvStep >= 1500 && s.Now() > lastEnvVT {
					// periodic library activity (clock advancing, no environment
					// step for a long stretch, an environment task still asleep)
					// used up the step budget: inconclusive, not a livelock
					e.Probe("step_budget_exhausted_by_periodic_activity")
					break
				}
				e.StepCap = true
				break
			}
			i := ch.PickTask(buf)
			if !buf[i].Lib || !librarySite(buf[i].Site) || buf[i].Group == 3 {
				// an environment task, or a library task inside harness code
				// (user function, monoid): not library-internal periodic activity
				lastEnvStep, lastEnvVT = steps, s.Now()
			}
			steps++
			lastActive = s.Now() - idle
			s.Release(buf[i])
		}
		synctest.Wait()
		e.Steps = steps
		e.Tasks = s.Snapshot()
		if res.Infra == "" {
			func() {
				defer func() {
					if x := recover(); x != nil {
						res.Infra = fmt.Sprint("oracle panicked: ", x)
					}
				}()
				if e.Viol == nil && e.StepCap {
					e.Failf(plan.Prop+".live", "no quiescence under the fair schedule",
						"step cap %d reached: %s", maxSteps, DescribeTasks(e.LibTasksAlive(nil)))
				}
				if e.Viol == nil {
					sc.Final(e)
				}
			}()
		}

		res.Viol = e.Viol
		res.Steps = steps
		res.VT = lastActive // virtual time of the last step (the idle wait up to the horizon is not counted)
		res.Hash = s.Hash
		res.Tape = ch.Tape
		res.Tasks = e.Tasks
		res.Faults = e.Faults
		res.Probes = e.Probes
		res.Cover = s.Cover
		res.States = s.StateHashes()
		res.SelMulti = s.SelMultiReady
		res.SelNonSrc = s.SelNonSource
		if s.SelNonSource > 0 {
			res.Faults["select_arbitration"] += s.SelNonSource
		}
		if s.Preempts > 0 {
			res.Faults["preempt"] += s.Preempts
		}
		if s.PoolEvictions > 0 {
			res.Faults["pool_evict"] += s.PoolEvictions
		}
		res.MultiTask = ch.MultiTask
		res.FairDef = ch.FairDefault
		res.Decisions = ch.Decisions
		res.Preempts = s.Preempts
		res.PoolEvict = s.PoolEvictions
		res.PoolReuse = s.PoolReuses
		res.Quiescent = e.Quiescent
		res.StepCap = e.StepCap
		res.StepsAfterLastFault = steps - lastFaultStep
		if keepEvents {
			for _, ev := range s.Events {
				res.Events = append(res.Events, ev.String())
			}
		}
		if sc.Nontrivial != nil {
			res.NonTrivial = sc.Nontrivial(e, res)
		} else {
			res.NonTrivial = total(res.Faults) > 0 || ch.MultiTask >= 3
		}

		// clean-up: free-run, abort the environment, cancel, let everything end.
		// The bubble's clock stops once this (root) goroutine returns, so the
		// root stays until sleeping goroutines have woken up and gone; what is
		// still there after that is blocked for good (a genuine leak) and ends
		// the bubble with its deadlock panic, recovered by Execute.
		s.FreeRun()
		close(e.Abort)
		for _, f := range e.OnCleanup {
			f()
		}
		cancel()
		e.CancelNow()
		for i := 0; i < 4; i++ {
			synctest.Wait()
			if live, _ := s.Live(); live == 0 {
				break
			}
			time.Sleep(horizon)
		}
	})
	return res
}

func total(m map[string]int) int {
	n := 0
	for _, v := range m {
		n += v
	}
	return n
}

// SortedKeys is a helper for deterministic iteration over maps.
func SortedKeys[V any](m map[string]V) []string {
	ks := make([]string, 0, len(m))
	for k := range m {
		ks = append(ks, k)
	}
	sort.Strings(ks)
	return ks
}

// librarySite tells sites inserted by the instrumenter ("file.go:line:col:kind")
// from sites of harness code ("monoid.stall", "fn.emit", ...).
func librarySite(site string) bool { return strings.Contains(site, ".go:") }

func twinPar(p *Plan) int {
	if p.Twin != nil {
		return p.Twin.Par
	}
	return 0
}

// Under a context that cannot be cancelled, whatever does not end by itself
// stays blocked for the life of the worker process (the clean-up has nothing to
// cancel): goroutines of stages whose inputs never close or whose consumer
// walked away, generators, pacers, the pump of an unbounded channel that nobody
// closes. Plans of that kind get such a context only a limited number of times
// per process, so that a worker executing millions of runs does not pile up
// parked goroutines; plans in which everything ends by itself always may.
var leakyNeverCancelRuns int

func neverCancelBudget(p *Plan) bool {
	leaky := false
	for _, pr := range p.Producers {
		leaky = leaky || pr.NoClose
	}
	for _, c := range p.Consumers {
		leaky = leaky || c.Abandon >= 0
	}
	switch p.Stage {
	case "Emit", "Unfold", "Throttling":
		leaky = true
	}
	if p.Prop == "C08" && !p.SenderClose {
		leaky = true
	}
	if !leaky {
		return true
	}
	leakyNeverCancelRuns++
	return leakyNeverCancelRuns <= 4000
}
