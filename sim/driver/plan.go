package driver

import (
	"encoding/json"
	"fmt"
)

// ConsumerPlan describes the environment task reading one returned channel.
type ConsumerPlan struct {
	Abandon  int   `json:"abandon"`             // stop receiving for ever after this many elements; −1: never
	DelaysMs []int `json:"delays_ms,omitempty"` // virtual sleep before receive i (cyclic)
	StartMs  int   `json:"start_ms,omitempty"`  // virtual sleep before the first receive
	// AfterClosed names another consumer: this one starts receiving only once
	// that one has observed the close of its channel (a sequential reader:
	// "drain the errors, then look at the values").
	AfterClosed string `json:"after_closed,omitempty"`
}

// ProducerPlan describes the environment task feeding one input channel.
type ProducerPlan struct {
	DelaysMs []int `json:"delays_ms,omitempty"` // virtual sleep before send i (cyclic)
	StartMs  int   `json:"start_ms,omitempty"`
	NoClose  bool  `json:"no_close,omitempty"` // never closes the input
	CloseMs  int   `json:"close_ms,omitempty"` // virtual sleep between last send and close
}

// Plan is the decoded workload + fault plan of one run. One struct serves all
// pipesim properties; unused fields stay zero and are omitted from replay
// files.
type Plan struct {
	Prop  string `json:"prop"`
	Stage string `json:"stage"`
	Mode  string `json:"mode,omitempty"` // pure | lift | try (| liftf | tryf)

	Cap    int     `json:"cap"`              // capacity of input channel(s) / generator
	Inputs [][]int `json:"inputs,omitempty"` // elements per input channel
	InCaps []int   `json:"in_caps,omitempty"`
	N      int     `json:"n,omitempty"`   // Take n, Throttling ops, receives wanted from a generator
	Par    int     `json:"par,omitempty"` // fork worker count
	Fn     int     `json:"fn,omitempty"`  // member of the user-function family
	FnArg  int     `json:"fn_arg,omitempty"`
	FailAt []int   `json:"fail_at,omitempty"` // positions (element index / call index) where the user function fails
	Monoid string  `json:"monoid,omitempty"`

	IntervalMs int   `json:"interval_ms,omitempty"` // Throttling interval / Emit frequency
	FnStallMs  []int `json:"fn_stall_ms,omitempty"` // virtual sleep inside user-function call i (cyclic)
	FnYields   int   `json:"fn_yields,omitempty"`   // extra scheduling points inside the user function

	Producers []ProducerPlan `json:"producers,omitempty"`
	Consumers []ConsumerPlan `json:"consumers,omitempty"`

	CancelStep  int  `json:"cancel_step"`             // driver cancels the context before this step; −1: never
	CancelMs    int  `json:"cancel_ms,omitempty"`     // >0: a canceller task cancels at this virtual time
	CancelAtEnd bool `json:"cancel_at_end,omitempty"` // cancel once everything is quiescent (what the unit tests do)

	// C08
	Senders     [][]int `json:"senders,omitempty"`
	Receivers   int     `json:"receivers,omitempty"`
	SenderClose bool    `json:"sender_close,omitempty"`
	RecvStart   int     `json:"recv_start,omitempty"` // receiver idles until this many sends completed (−1: never receives)
	Waves       int     `json:"waves,omitempty"`

	// scheduling
	Policy    string `json:"policy"`
	Budget    int    `json:"budget"`
	PreemptN  int    `json:"preempt_n,omitempty"`
	PoolEvict bool   `json:"pool_evict,omitempty"`

	// Twin, when set, is a second instance of the system built next to the
	// first one in the same run (isolated runs).
	Twin *Plan `json:"twin,omitempty"`

	Chain []string       `json:"chain,omitempty"` // stage chain (thorough tier)
	Extra map[string]int `json:"extra,omitempty"`
}

func (p *Plan) Clone() *Plan {
	b, _ := json.Marshal(p)
	var q Plan
	_ = json.Unmarshal(b, &q)
	return &q
}

func (p *Plan) String() string {
	b, _ := json.Marshal(p)
	return string(b)
}

func (p *Plan) X(key string) int {
	if p.Extra == nil {
		return 0
	}
	return p.Extra[key]
}

func (p *Plan) SetX(key string, v int) {
	if p.Extra == nil {
		p.Extra = map[string]int{}
	}
	p.Extra[key] = v
}

// Consumer returns the plan of consumer i (default: eager, never abandons).
func (p *Plan) Consumer(i int) ConsumerPlan {
	if i < len(p.Consumers) {
		return p.Consumers[i]
	}
	return ConsumerPlan{Abandon: -1}
}

func (p *Plan) Producer(i int) ProducerPlan {
	if i < len(p.Producers) {
		return p.Producers[i]
	}
	return ProducerPlan{}
}

// Shrink proposes simpler plans (generic, property-independent moves).
func (p *Plan) Shrink() []*Plan {
	var out []*Plan
	add := func(f func(q *Plan) bool) {
		q := p.Clone()
		if f(q) {
			out = append(out, q)
		}
	}
	add(func(q *Plan) bool { ok := q.Twin != nil; q.Twin = nil; return ok })
	// remove faults first
	add(func(q *Plan) bool { ok := q.CancelStep >= 0; q.CancelStep = -1; return ok })
	add(func(q *Plan) bool { ok := q.CancelMs > 0; q.CancelMs = 0; return ok })
	add(func(q *Plan) bool { ok := q.CancelAtEnd; q.CancelAtEnd = false; return ok })
	add(func(q *Plan) bool { ok := q.PreemptN != 0; q.PreemptN = 0; return ok })
	add(func(q *Plan) bool { ok := q.PoolEvict; q.PoolEvict = false; return ok })
	add(func(q *Plan) bool { ok := len(q.FnStallMs) > 0; q.FnStallMs = nil; return ok })
	add(func(q *Plan) bool { ok := q.FnYields > 0; q.FnYields = 0; return ok })
	for i := range p.Consumers {
		i := i
		add(func(q *Plan) bool { ok := q.Consumers[i].Abandon >= 0; q.Consumers[i].Abandon = -1; return ok })
		add(func(q *Plan) bool {
			ok := len(q.Consumers[i].DelaysMs) > 0 || q.Consumers[i].StartMs > 0
			q.Consumers[i].DelaysMs = nil
			q.Consumers[i].StartMs = 0
			return ok
		})
		add(func(q *Plan) bool { ok := q.Consumers[i].Abandon > 0; q.Consumers[i].Abandon--; return ok })
	}
	for i := range p.Producers {
		i := i
		add(func(q *Plan) bool {
			ok := len(q.Producers[i].DelaysMs) > 0 || q.Producers[i].StartMs > 0 || q.Producers[i].CloseMs > 0
			q.Producers[i].DelaysMs = nil
			q.Producers[i].StartMs = 0
			q.Producers[i].CloseMs = 0
			return ok
		})
		add(func(q *Plan) bool { ok := q.Producers[i].NoClose; q.Producers[i].NoClose = false; return ok })
	}
	for i := range p.FailAt {
		i := i
		add(func(q *Plan) bool { q.FailAt = append(q.FailAt[:i:i], q.FailAt[i+1:]...); return true })
	}
	// fewer inputs / elements
	if len(p.Inputs) > 1 {
		for i := range p.Inputs {
			i := i
			add(func(q *Plan) bool {
				q.Inputs = append(q.Inputs[:i:i], q.Inputs[i+1:]...)
				if i < len(q.InCaps) {
					q.InCaps = append(q.InCaps[:i:i], q.InCaps[i+1:]...)
				}
				if i < len(q.Producers) {
					q.Producers = append(q.Producers[:i:i], q.Producers[i+1:]...)
				}
				// elements say which input they belong to (InputStride*index +
				// position): the inputs behind the removed one move up by one
				if InputStride > 0 {
					for j := i; j < len(q.Inputs); j++ {
						in := append([]int(nil), q.Inputs[j]...)
						for k, v := range in {
							if v >= 0 && v/InputStride == j+1 {
								in[k] = v - InputStride
							}
						}
						q.Inputs[j] = in
					}
				}
				return true
			})
		}
	}
	for i := range p.Inputs {
		i := i
		if n := len(p.Inputs[i]); n > 0 {
			add(func(q *Plan) bool { q.Inputs[i] = q.Inputs[i][:n/2]; return n > 1 })
			add(func(q *Plan) bool { q.Inputs[i] = q.Inputs[i][:n-1]; return true })
			add(func(q *Plan) bool { q.Inputs[i] = q.Inputs[i][1:]; return true })
		}
	}
	for i := range p.Senders {
		i := i
		if n := len(p.Senders[i]); n > 0 {
			add(func(q *Plan) bool { q.Senders[i] = q.Senders[i][:n-1]; return true })
		}
	}
	if len(p.Senders) > 1 {
		add(func(q *Plan) bool { q.Senders = q.Senders[:len(q.Senders)-1]; return true })
	}
	add(func(q *Plan) bool { ok := q.Receivers > 1; q.Receivers = 1; return ok })
	add(func(q *Plan) bool { ok := q.Waves > 1; q.Waves--; return ok })
	add(func(q *Plan) bool { ok := q.Cap > 0; q.Cap = 0; return ok })
	add(func(q *Plan) bool { ok := q.Cap > 1; q.Cap--; return ok })
	for i := range p.InCaps {
		i := i
		add(func(q *Plan) bool { ok := q.InCaps[i] > 0; q.InCaps[i] = 0; return ok })
	}
	add(func(q *Plan) bool { ok := q.Par > 1; q.Par--; return ok })
	add(func(q *Plan) bool { ok := q.N > 1; q.N--; return ok })
	add(func(q *Plan) bool { ok := q.CancelStep > 0; q.CancelStep--; return ok })
	add(func(q *Plan) bool { ok := q.CancelStep > 3; q.CancelStep /= 2; return ok })
	if len(p.Chain) > 1 {
		add(func(q *Plan) bool { q.Chain = q.Chain[:len(q.Chain)-1]; return true })
	}
	return out
}

// InputStride, when set by the scenarios, is the stride by which element values
// encode the index of their input (see Shrink).
var InputStride int

// Seed0 is a small number derived from the plan itself (stable under replay).
func (p *Plan) Seed0() int { return p.Fn + p.Cap + p.Par + len(p.Inputs) + p.N }

// Violation of one oracle clause.
type Violation struct {
	Property string `json:"property"`
	Clause   string `json:"clause"`
	Stage    string `json:"stage"`
	Class    string `json:"class"` // short, stable description used to match known findings
	Msg      string `json:"msg"`
}

func (v *Violation) Signature() string {
	return fmt.Sprintf("%s|%s|%s|%s", v.Property, v.Clause, v.Stage, v.Class)
}
