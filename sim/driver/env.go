package driver

import (
	"context"
	"fmt"
	"sync"
	"sync/atomic"
	"time"

	"verif/sim/simrt"
)

// Env is what a scenario sees of a run: the context, fault injection, the
// recorders of environment tasks, and the verdict.
type Env struct {
	S    *simrt.Sched
	Plan *Plan
	Ctx  context.Context

	cancel    context.CancelFunc
	Cancelled atomic.Bool
	CancelSeq int
	CancelVT  time.Duration
	Abort     chan struct{}

	Viol   *Violation
	stop   bool
	Probes map[string]int
	Faults map[string]int

	// outcome of the scheduling loop
	Quiescent bool
	StepCap   bool
	Steps     int
	Tasks     []simrt.TaskInfo // snapshot at the end of the loop

	// OnStep, when set, runs after every step (online invariants).
	OnStep func()
	// AtQuiescence, when set, is called when nothing can run any more; it may
	// start a new phase (return true to continue the loop).
	AtQuiescence func() bool

	clock int64
	sigs  map[string]chan struct{}
	mu    sync.Mutex // raw cross-check mode only: user functions run on library goroutines
	// Shared survives the uses of a phased run (values a caller would keep).
	Shared map[string]any
	// Data is the scenario's own state for this run.
	Data any
	// OnCleanup hooks run when the run is over (free-run phase): release what
	// the harness itself keeps parked for the whole run.
	OnCleanup []func()
	// NeverCancel: the run's context has no Done channel.
	NeverCancel bool
}

// Failf records the first violation and stops the run.
func (e *Env) Failf(clause, class, format string, args ...any) {
	e.mu.Lock()
	defer e.mu.Unlock()
	if simrt.Free() || e.Viol != nil {
		return
	}
	e.Viol = &Violation{Property: e.Plan.Prop, Clause: clause, Stage: e.Plan.Stage, Class: class, Msg: fmt.Sprintf(format, args...)}
	e.stop = true
	e.S.Note("oracle", clause+": "+e.Viol.Msg)
}

// Phased runs a scenario several times in a row inside one run (plan extra
// "uses" > 1): when everything is quiescent and nothing was cancelled, the
// oracle of the finished use is evaluated and the system is built again, in
// the same process state. This is what exposes state carried over from a
// previous call (package-level caches, pools, counters).
func Phased(e *Env, build func(*Env), final func(*Env)) {
	phase := 1
	build(e)
	e.AtQuiescence = func() bool {
		if phase >= e.Plan.X("uses") || e.Viol != nil {
			return false
		}
		if e.Plan.X("cancel_between") == 1 {
			// the first use is cancelled once it is quiet, winds down, is
			// judged, and the second use starts under a fresh context
			if !e.Cancelled.Load() {
				e.Cancel("between uses")
				return true
			}
			e.Quiescent = true
			e.Tasks = e.S.Snapshot()
			final(e)
			e.Quiescent = false
			if e.Viol != nil {
				return false
			}
			phase++
			e.Probe("second_use_after_cancel")
			e.ResetContext()
			e.sigs = nil
			build(e)
			return true
		}
		if e.Cancelled.Load() {
			return false
		}
		e.Quiescent = true
		e.Tasks = e.S.Snapshot()
		final(e)
		e.Quiescent = false
		if e.Viol != nil {
			return false
		}
		phase++
		e.Probe("second_use_in_one_run")
		e.sigs = nil
		build(e)
		return true
	}
}

// ResetContext gives the run a fresh, uncancelled context (phased runs).
func (e *Env) ResetContext() {
	ctx, cancel := context.WithCancel(context.Background())
	if e.Plan.X("ctx_deadline") == 2 {
		ctx, cancel = newExpiringCtx(time.Now().Add(time.Hour))
	}
	e.Ctx, e.cancel = ctx, cancel
	e.Cancelled.Store(false)
	e.S.Watch(ctx.Done(), &e.Cancelled)
}

// CancelNow cancels the current context without recording a fault (clean-up).
func (e *Env) CancelNow() { e.cancel() }

// FailPost records a violation found after the bubble ended.
func (e *Env) FailPost(clause, class, format string, args ...any) {
	if e.Viol != nil {
		return
	}
	e.Viol = &Violation{Property: e.Plan.Prop, Clause: clause, Stage: e.Plan.Stage, Class: class, Msg: fmt.Sprintf(format, args...)}
}

// closedSig is closed when the consumer called name observes the close of its
// channel (one per name and use).
func (e *Env) closedSig(name string) chan struct{} {
	if e.sigs == nil {
		e.sigs = map[string]chan struct{}{}
	}
	c, ok := e.sigs[name]
	if !ok {
		c = make(chan struct{})
		e.sigs[name] = c
	}
	return c
}

// Tick is a strictly increasing logical clock for invoke/return stamps of
// recorded operations (only the running task calls it).
func (e *Env) Tick() int64 { e.clock++; return e.clock }

func (e *Env) Probe(name string) {
	e.mu.Lock()
	if !simrt.Free() {
		e.Probes[name]++
	}
	e.mu.Unlock()
}

func (e *Env) Fault(kind string) {
	e.mu.Lock()
	if !simrt.Free() {
		e.Faults[kind]++
	}
	e.mu.Unlock()
}

// Cancel cancels the run's context (once) and records where.
func (e *Env) Cancel(how string) {
	if e.Cancelled.Load() {
		return
	}
	if e.NeverCancel {
		e.Probe("cancel_requested_on_never_cancellable_context")
		return
	}
	e.CancelSeq = e.S.Seq
	e.CancelVT = e.S.Now()
	e.Cancelled.Store(true)
	e.S.Note("cancel", how)
	// counted as a fault only when it lands while library tasks are alive
	if _, lib := e.S.Live(); lib > 0 {
		e.Fault("cancel")
		for _, t := range e.S.Snapshot() {
			if t.Lib && t.State != "exited" {
				e.Probes["cancel@"+siteKind(t.Site)+"/"+t.State]++
			}
		}
	}
	e.cancel()
}

func siteKind(site string) string {
	// "pipe.go:203:4:select/woke" -> "select"
	k := site
	for i := len(k) - 1; i >= 0; i-- {
		if k[i] == '/' {
			k = k[:i]
			break
		}
		if k[i] == ':' {
			break
		}
	}
	for i := len(k) - 1; i >= 0; i-- {
		if k[i] == ':' {
			return k[i+1:]
		}
	}
	return k
}

func ms(n int) time.Duration { return time.Duration(n) * time.Millisecond }

func cyc(xs []int, i int) int {
	if len(xs) == 0 {
		return 0
	}
	return xs[i%len(xs)]
}

// Obs is one received element with the global step number and virtual time of
// its receipt.
type Obs[T any] struct {
	V   T
	Seq int
	VT  time.Duration
}

// Stream records what one consumer saw on one returned channel.
type Stream[T any] struct {
	Name      string
	Got       []Obs[T]
	Closed    bool // close observed
	CloseSeq  int
	CloseVT   time.Duration
	Abandoned bool
	ch        <-chan T
}

func (s *Stream[T]) Values() []T {
	out := make([]T, len(s.Got))
	for i, o := range s.Got {
		out[i] = o.V
	}
	return out
}

// ProbeClosed reports, without blocking, whether the channel is closed once
// its buffered elements are skipped: (closed, buffered elements skipped).
// Only meaningful when no task can send any more.
func (s *Stream[T]) ProbeClosed() (bool, int) {
	n := 0
	for {
		select {
		case _, ok := <-s.ch:
			if !ok {
				return true, n
			}
			n++
			if n > 1<<16 {
				return false, n
			}
		default:
			return false, n
		}
	}
}

// Consume starts an environment task receiving from ch according to plan cp.
// onRecv runs (as the consumer task) right after element i was received: the
// place for online oracle clauses.
func Consume[T any](e *Env, name string, ch <-chan T, cp ConsumerPlan, onRecv func(i int, v T)) *Stream[T] {
	st := &Stream[T]{Name: name, ch: ch}
	drain := func() {
		for range ch {
		}
	}
	simrt.GoEnv(name, func() {
		if cp.AfterClosed != "" {
			sel := simrt.Select(name+".await", false, simrt.R(e.closedSig(cp.AfterClosed)), simrt.R(e.Abort))
			if simrt.Free() || sel.I == 1 {
				drain()
				return
			}
			e.Fault("consumer_sequential")
		}
		if cp.StartMs > 0 {
			simrt.Sleep(name+".start", ms(cp.StartMs))
			e.Fault("consumer_stall")
		}
		for i := 0; ; i++ {
			if cp.Abandon >= 0 && i >= cp.Abandon {
				st.Abandoned = true
				e.Fault("consumer_abandon")
				simrt.Select(name+".abandoned", false, simrt.R(e.Abort))
				drain()
				return
			}
			if d := cyc(cp.DelaysMs, i); d > 0 {
				simrt.Sleep(name+".stall", ms(d))
				e.Fault("consumer_stall")
			}
			sel := simrt.Select(name+".recv", false, simrt.R(ch), simrt.R(e.Abort))
			if simrt.Free() {
				drain()
				return
			}
			if sel.I == 1 {
				drain()
				return
			}
			if !sel.OK {
				st.Closed = true
				st.CloseSeq = e.S.Seq
				st.CloseVT = e.S.Now()
				close(e.closedSig(name))
				return
			}
			v := simrt.Val(ch, sel)
			st.Got = append(st.Got, Obs[T]{V: v, Seq: e.S.Seq, VT: e.S.Now()})
			if onRecv != nil {
				onRecv(len(st.Got)-1, v)
			}
		}
	})
	return st
}

// Prod records what one producer did.
type Prod struct {
	Name     string
	Sent     int   // completed sends
	SentSeq  []int // step at which send i completed
	Closed   bool
	CloseSeq int
	CloseVT  time.Duration
	Total    int
}

// Produce starts an environment task that sends items on ch and then closes it.
func Produce[T any](e *Env, name string, ch chan T, items []T, pp ProducerPlan) *Prod {
	p := &Prod{Name: name, Total: len(items)}
	simrt.GoEnv(name, func() {
		defer func() {
			// at clean-up the producer always closes its channel, so that
			// library goroutines ranging over it can end
			if !p.Closed {
				p.Closed = true
				close(ch)
			}
		}()
		if pp.StartMs > 0 {
			simrt.Sleep(name+".start", ms(pp.StartMs))
			e.Fault("producer_stall")
		}
		for i, x := range items {
			if d := cyc(pp.DelaysMs, i); d > 0 {
				simrt.Sleep(name+".stall", ms(d))
				e.Fault("producer_stall")
			}
			sel := simrt.Select(name+".send", false, simrt.Snd(ch, x), simrt.R(e.Abort))
			if simrt.Free() || sel.I == 1 {
				return
			}
			p.Sent++
			p.SentSeq = append(p.SentSeq, e.S.Seq)
		}
		if pp.CloseMs > 0 {
			simrt.Sleep(name+".preclose", ms(pp.CloseMs))
		}
		if pp.NoClose {
			e.Fault("input_never_closed")
			simrt.Select(name+".open", false, simrt.R(e.Abort))
			return
		}
		simrt.Yield(name + ".close")
		if simrt.Free() {
			return
		}
		p.Closed = true
		p.CloseSeq = e.S.Seq
		p.CloseVT = e.S.Now()
		close(ch)
	})
	return p
}

// Call is one invocation of a user function.
type Call struct {
	Arg    int
	Task   int
	Seq    int
	VT     time.Duration
	EndSeq int // 0: still running
}

// Calls records user-function invocations.
type Calls struct {
	List []Call
}

func (c *Calls) Count(arg int) int {
	n := 0
	for _, x := range c.List {
		if x.Arg == arg {
			n++
		}
	}
	return n
}

// Enter is called at the top of every harness-supplied user function: records
// the call and injects the planned stall / scheduling points. Returns the call
// index.
func (e *Env) Enter(c *Calls, arg int) int {
	if simrt.Free() {
		return -1
	}
	e.mu.Lock()
	idx := len(c.List)
	task := -1
	if t := e.S.Cur(); t != nil && !simrt.RawLib {
		task = t.ID
	}
	c.List = append(c.List, Call{Arg: arg, Task: task, Seq: e.S.Seq, VT: e.S.Now()})
	e.mu.Unlock()
	for i := 0; i < e.Plan.FnYields; i++ {
		simrt.Yield("fn.yield")
	}
	if d := cyc(e.Plan.FnStallMs, idx); d > 0 {
		e.Fault("fn_stall")
		simrt.Sleep("fn.stall", ms(d))
	}
	return idx
}

// Leave marks the end of user-function call idx.
func (e *Env) Leave(c *Calls, idx int) {
	e.mu.Lock()
	defer e.mu.Unlock()
	if idx >= 0 && idx < len(c.List) && !simrt.Free() {
		c.List[idx].EndSeq = e.S.Seq
		if c.List[idx].EndSeq == 0 {
			c.List[idx].EndSeq = 1
		}
	}
}

// LibTasksAlive lists library tasks that have not exited, with their sites.
func (e *Env) LibTasksAlive(except func(simrt.TaskInfo) bool) []simrt.TaskInfo {
	var out []simrt.TaskInfo
	for _, t := range e.Tasks {
		if t.Lib && t.State != "exited" && (except == nil || !except(t)) {
			out = append(out, t)
		}
	}
	return out
}

// LibPanics lists panics of library tasks.
func (e *Env) LibPanics() []simrt.TaskInfo {
	var out []simrt.TaskInfo
	for _, t := range e.Tasks {
		if t.Lib && t.Panic != "" {
			out = append(out, t)
		}
	}
	return out
}

// EnvPanics lists panics of environment tasks.
func (e *Env) EnvPanics() []simrt.TaskInfo {
	var out []simrt.TaskInfo
	for _, t := range e.Tasks {
		if !t.Lib && t.Panic != "" {
			out = append(out, t)
		}
	}
	return out
}

func DescribeTasks(ts []simrt.TaskInfo) string {
	s := ""
	for i, t := range ts {
		if i > 0 {
			s += "; "
		}
		s += fmt.Sprintf("T%d %s %s@%s", t.ID, t.Name, t.State, t.Site)
		if t.Panic != "" {
			s += " panic=" + t.Panic
		}
	}
	return s
}

// expiringCtx is a context that ends by *expiry*: whoever ends it (the
// canceller task, under the scheduler), its Err is context.DeadlineExceeded and
// it carries a deadline — what a context.WithTimeout looks like to the library
// when the timeout strikes, without a runtime timer goroutine deciding when.
type expiringCtx struct {
	done     chan struct{}
	once     sync.Once
	mu       sync.Mutex
	err      error
	deadline time.Time
}

func newExpiringCtx(deadline time.Time) (context.Context, context.CancelFunc) {
	c := &expiringCtx{done: make(chan struct{}), deadline: deadline}
	return c, func() {
		c.once.Do(func() {
			c.mu.Lock()
			c.err = context.DeadlineExceeded
			c.mu.Unlock()
			close(c.done)
		})
	}
}

func (c *expiringCtx) Deadline() (time.Time, bool) { return c.deadline, true }
func (c *expiringCtx) Done() <-chan struct{}       { return c.done }
func (c *expiringCtx) Value(any) any               { return nil }
func (c *expiringCtx) Err() error {
	c.mu.Lock()
	defer c.mu.Unlock()
	return c.err
}
