package driver

import (
	"encoding/json"
	"fmt"
	"os"
	"path/filepath"
	"runtime"
	"sort"
	"strconv"
	"sync/atomic"
	"testing"
	"time"

	"verif/sim/simrt"
)

// WorkerIn is the job description passed by cmd/check (JSON in VERIF_JOB).
type WorkerIn struct {
	Prop      string   `json:"prop"`
	Mode      string   `json:"mode"` // run | replay | count
	Seed      uint64   `json:"seed"`
	Thorough  bool     `json:"thorough"`
	Worker    int      `json:"worker"`       // this worker's number
	Workers   int      `json:"workers"`      // total workers: enumerated plans and random runs are dealt round-robin
	Random    int      `json:"random"`       // total number of random runs (all workers)
	WallLimit int      `json:"wall_limit_s"` // soft limit for the random part
	Replay    string   `json:"replay,omitempty"`
	ReplayDir string   `json:"replay_dir"`
	Out       string   `json:"out"`
	MaxSteps  int      `json:"max_steps"`
	RawLib    bool     `json:"raw_lib,omitempty"`    // uninstrumented cross-check
	Known     []string `json:"known,omitempty"`      // signatures listed in known_findings.json
	Procs     int      `json:"gomaxprocs,omitempty"` // GOMAXPROCS of this worker (0: leave the default)
}

// Sample is a written-out case for the evidence file.
type Sample struct {
	Plan      *Plan          `json:"plan"`
	Steps     int            `json:"steps"`
	VirtualMs float64        `json:"virtual_ms"`
	Faults    map[string]int `json:"faults_fired,omitempty"`
	Outcome   string         `json:"outcome"`
	Trace     []string       `json:"trace_head,omitempty"`
}

// Found is one violation (first of its signature in this worker).
type Found struct {
	Violation
	Count    int    `json:"count"`
	Replay   string `json:"replay"`
	MinSteps int    `json:"min_steps"`
	Unstable bool   `json:"unstable,omitempty"` // did not re-execute identically inside the worker process
}

// WorkerOut is what a worker reports.
type WorkerOut struct {
	Prop         string         `json:"prop"`
	Worker       int            `json:"worker"`
	Runs         int            `json:"runs"`
	EnumTotal    int            `json:"enum_total"`
	EnumRuns     int            `json:"enum_runs"`  // runs spent on enumerated plans (incl. sweeps)
	EnumBases    int            `json:"enum_bases"` // enumerated base plans handled by this worker
	RandomRuns   int            `json:"random_runs"`
	Steps        int64          `json:"steps"`
	VirtualNs    int64          `json:"virtual_ns"`
	WallS        float64        `json:"wall_s"`
	Faults       map[string]int `json:"faults"`
	Probes       map[string]int `json:"probes"`
	Cover        map[string]int `json:"cover"`
	Schedules    []uint64       `json:"schedules"`  // distinct schedule hashes
	NonTrivial   []uint64       `json:"nontrivial"` // distinct schedule hashes of non-trivial runs
	States       []uint64       `json:"states"`
	SelMulti     int64          `json:"select_multi_ready"`
	SelNonSrc    int64          `json:"select_non_source_order"`
	MultiTask    int64          `json:"decisions_with_choice"`
	Decisions    int64          `json:"decisions"`
	FairDef      int64          `json:"fair_default_decisions"`
	MaxAfter     int            `json:"max_steps_after_last_fault"`
	MaxSteps     int            `json:"max_steps_in_a_run"`
	Leaks        int            `json:"cleanup_deadlocks"`
	Samples      []Sample       `json:"samples"`
	Found        []*Found       `json:"found"`
	Infra        string         `json:"infra,omitempty"`
	Reproduced   bool           `json:"reproduced,omitempty"`
	ReplayTrace  []string       `json:"replay_trace,omitempty"`
	Policies     map[string]int `json:"policies"`
	StoppedEarly bool           `json:"stopped_early,omitempty"` // enough unlisted violations found: remaining runs skipped
	RunHashes    []uint64       `json:"run_hashes,omitempty"`    // mode hashes: one per run index
}

// ReplayFile is the on-disk format of a minimised failing run.
type ReplayFile struct {
	Property string   `json:"property"`
	Clause   string   `json:"clause"`
	Stage    string   `json:"stage"`
	Class    string   `json:"class"`
	Msg      string   `json:"msg"`
	Seed     uint64   `json:"seed"`
	Run      string   `json:"run"`
	Plan     *Plan    `json:"plan"`
	Tape     []uint32 `json:"tape"`
	Hash     uint64   `json:"log_hash"`
	Steps    int      `json:"steps"`
	Events   []string `json:"event_log"`
	Tasks    []string `json:"tasks_at_end"`
	Procs    int      `json:"gomaxprocs,omitempty"`
}

var replayN int

func nextReplayN() int { replayN++; return replayN }

const hashCap = 250_000

var progress atomic.Int64

// Progress tells the watchdog that the worker is alive (called once per case).
func Progress() { progress.Add(1) }

// Watchdog aborts the process (exit 2: infrastructure, never a verdict) when
// no run completes for limit wall-clock seconds.
func Watchdog(limit time.Duration) {
	go func() {
		last := progress.Load()
		lastT := time.Now()
		for {
			time.Sleep(500 * time.Millisecond)
			if p := progress.Load(); p != last {
				last, lastT = p, time.Now()
				continue
			}
			if time.Since(lastT) > limit {
				buf := make([]byte, 1<<20)
				n := runtime.Stack(buf, true)
				fmt.Fprintf(os.Stderr, "INFRA: watchdog: no progress for %v (a task spins without a synchronisation point, or the simulator hangs)\n%s\n", limit, buf[:n])
				os.Exit(2)
			}
		}
	}()
}

type agg struct {
	out   *WorkerOut
	sched map[uint64]struct{}
	nont  map[uint64]struct{}
	state map[uint64]struct{}
	found map[string]*Found
}

func (a *agg) add(p *Plan, r *RunResult) {
	o := a.out
	o.Runs++
	o.Steps += int64(r.Steps)
	o.VirtualNs += int64(r.VT)
	for k, v := range r.Faults {
		o.Faults[k] += v
	}
	for k, v := range r.Probes {
		o.Probes[k] += v
	}
	for k, v := range r.Cover {
		o.Cover[k] += v
	}
	// exact up to a cap per worker; beyond it the counts are lower bounds
	if len(a.sched) < hashCap {
		a.sched[r.Hash] = struct{}{}
	} else {
		o.Probes["distinct_schedule_count_capped"] = 1
	}
	if r.NonTrivial && len(a.nont) < hashCap {
		a.nont[r.Hash] = struct{}{}
	}
	if len(a.state) < hashCap {
		for h := range r.States {
			a.state[h] = struct{}{}
		}
	}
	o.SelMulti += int64(r.SelMulti)
	o.SelNonSrc += int64(r.SelNonSrc)
	o.MultiTask += int64(r.MultiTask)
	o.Decisions += int64(r.Decisions)
	o.FairDef += int64(r.FairDef)
	if r.Viol == nil && total(r.Faults) > 0 && r.StepsAfterLastFault > o.MaxAfter {
		o.MaxAfter = r.StepsAfterLastFault
	}
	if r.Steps > o.MaxSteps {
		o.MaxSteps = r.Steps
	}
	if r.Leaked {
		o.Leaks++
	}
	o.Policies[p.Policy]++
}

func outcome(r *RunResult) string {
	if r.Viol != nil {
		return "VIOLATION " + r.Viol.Clause + ": " + r.Viol.Msg
	}
	if r.Quiescent {
		return "held; quiescent"
	}
	return "held"
}

// RunWorker is the body of the worker test binary.
func RunWorker(t *testing.T, scenarios map[string]*Scenario) {
	var in WorkerIn
	if err := json.Unmarshal([]byte(os.Getenv("VERIF_JOB")), &in); err != nil {
		fmt.Fprintln(os.Stderr, "INFRA: bad VERIF_JOB:", err)
		os.Exit(2)
	}
	sc := scenarios[in.Prop]
	if sc == nil {
		fmt.Fprintln(os.Stderr, "INFRA: unknown property", in.Prop)
		os.Exit(2)
	}
	if in.MaxSteps == 0 {
		in.MaxSteps = 150000
	}
	simrt.RawLib = in.RawLib
	if in.Procs > 0 {
		runtime.GOMAXPROCS(in.Procs)
	}
	Watchdog(150 * time.Second)
	start := time.Now()
	out := &WorkerOut{Prop: in.Prop, Worker: in.Worker, Faults: map[string]int{}, Probes: map[string]int{}, Cover: map[string]int{}, Policies: map[string]int{}}
	a := &agg{out: out, sched: map[uint64]struct{}{}, nont: map[uint64]struct{}{}, state: map[uint64]struct{}{}, found: map[string]*Found{}}
	write := func() {
		out.WallS = time.Since(start).Seconds()
		out.Schedules = keys(a.sched)
		out.NonTrivial = keys(a.nont)
		out.States = keys(a.state)
		b, _ := json.Marshal(out)
		if err := os.WriteFile(in.Out, b, 0o644); err != nil {
			fmt.Fprintln(os.Stderr, "INFRA: cannot write worker output:", err)
			os.Exit(2)
		}
	}

	switch in.Mode {
	case "count":
		if sc.Enum != nil {
			out.EnumTotal = len(sc.Enum(in.Thorough))
		}
		write()
		return
	case "iso":
		// exactly one run, in a process of its own (in.Worker is the index)
		if sc.GenIso == nil {
			write()
			return
		}
		seed := Mix(in.Seed, StrSeed(in.Prop), uint64(in.Worker), 0x150)
		p := sc.GenIso(NewRand(seed), in.Thorough)
		if p.Policy == "" {
			p.Policy = PolUniform
		}
		if p.Budget == 0 {
			p.Budget = 4000
		}
		r := Execute(t, sc, p, NewGenChooser(Mix(seed, 1), p.Policy, p.Budget), in.MaxSteps, false)
		progress.Add(1)
		if r.Infra != "" {
			out.Infra = r.Infra
			write()
			os.Exit(2)
		}
		a.add(p, r)
		out.RandomRuns++
		out.Probes["isolated_runs"]++
		if len(out.Samples) < 1 {
			out.Samples = append(out.Samples, Sample{Plan: p, Steps: r.Steps, VirtualMs: float64(r.VT) / 1e6, Faults: r.Faults, Outcome: outcome(r)})
		}
		if r.Viol != nil {
			// no minimisation here: it would need a fresh process per attempt;
			// the replay file is the run as it is
			f := &Found{Violation: *r.Viol, Count: 1, MinSteps: r.Steps}
			out.Found = append(out.Found, f)
			rf := ReplayFile{Property: in.Prop, Clause: r.Viol.Clause, Stage: r.Viol.Stage, Class: r.Viol.Class, Msg: r.Viol.Msg,
				Seed: in.Seed, Run: fmt.Sprintf("iso-%d", in.Worker), Plan: p, Tape: r.Tape, Hash: r.Hash, Steps: r.Steps, Procs: in.Procs}
			_ = os.MkdirAll(in.ReplayDir, 0o755)
			name := filepath.Join(in.ReplayDir, fmt.Sprintf("%s-%d-iso%d.json", in.Prop, in.Seed, in.Worker))
			b, _ := json.MarshalIndent(rf, "", " ")
			if err := os.WriteFile(name, b, 0o644); err != nil {
				fmt.Fprintln(os.Stderr, "INFRA: cannot write replay file:", err)
				os.Exit(2)
			}
			f.Replay = name
		}
		write()
		return
	case "hashes":
		// determinism self-test: every run index executed here, one hash per
		// run covering schedule, steps, virtual time and verdict
		for i := 0; i < in.Random; i++ {
			seed := Mix(in.Seed, StrSeed(in.Prop), uint64(i), 0xA)
			p := sc.Gen(NewRand(seed), in.Thorough)
			if p.Policy == "" {
				p.Policy = PolUniform
			}
			if p.Budget == 0 {
				p.Budget = 4000
			}
			r := Execute(t, sc, p, NewGenChooser(Mix(seed, 1), p.Policy, p.Budget), in.MaxSteps, false)
			progress.Add(1)
			h := r.Hash ^ uint64(r.Steps)*0x9E3779B97F4A7C15 ^ uint64(r.VT)*31
			if r.Viol != nil {
				h ^= StrSeed(r.Viol.Signature())
			}
			for _, k := range SortedKeys(r.Faults) {
				h = h*1099511628211 ^ StrSeed(k) ^ uint64(r.Faults[k])
			}
			out.RunHashes = append(out.RunHashes, h)
			out.Runs++
		}
		write()
		return
	case "replay":
		b, err := os.ReadFile(in.Replay)
		if err != nil {
			fmt.Fprintln(os.Stderr, "INFRA: cannot read replay file:", err)
			os.Exit(2)
		}
		var rf ReplayFile
		if err := json.Unmarshal(b, &rf); err != nil {
			fmt.Fprintln(os.Stderr, "INFRA: bad replay file:", err)
			os.Exit(2)
		}
		if rf.Procs > 0 {
			runtime.GOMAXPROCS(rf.Procs)
		}
		r := Execute(t, sc, rf.Plan, NewReplayChooser(rf.Tape), in.MaxSteps, true)
		progress.Add(1)
		if r.Infra != "" {
			out.Infra = r.Infra
		}
		out.ReplayTrace = r.Events
		for _, ti := range r.Tasks {
			out.ReplayTrace = append(out.ReplayTrace, fmt.Sprintf("end: T%d %s lib=%v %s@%s %s", ti.ID, ti.Name, ti.Lib, ti.State, ti.Site, ti.Panic))
		}
		if r.Viol != nil {
			out.Found = append(out.Found, &Found{Violation: *r.Viol, Count: 1, Replay: in.Replay})
			out.Reproduced = r.Viol.Clause == rf.Clause
		}
		a.add(rf.Plan, r)
		write()
		return
	}

	known := map[string]bool{}
	for _, k := range in.Known {
		known[k] = true
	}
	unlisted := 0
	unstableRetries := 0
	// once a worker has seen this many runs violate the property (violations
	// not listed as known findings) the verdict is settled: the remaining
	// runs are skipped, which keeps a badly broken tree from costing hours
	const enough = 40
	handle := func(p *Plan, runID string, seed uint64, enum bool) *RunResult {
		if p.Policy == "" {
			p.Policy = PolUniform
		}
		if p.Budget == 0 {
			p.Budget = 4000
		}
		ch := NewGenChooser(seed, p.Policy, p.Budget)
		r := Execute(t, sc, p, ch, in.MaxSteps, false)
		progress.Add(1)
		if r.Infra != "" {
			out.Infra = fmt.Sprintf("run %s: %s", runID, r.Infra)
			write()
			fmt.Fprintln(os.Stderr, "INFRA:", out.Infra)
			os.Exit(2)
		}
		a.add(p, r)
		if r.Leaked && os.Getenv("VERIF_DEBUG") != "" {
			fmt.Fprintf(os.Stderr, "DEBUG leaked: run %s viol=%v plan=%s\n", runID, r.Viol, p)
		}
		if enum {
			out.EnumRuns++
		} else {
			out.RandomRuns++
		}
		if len(out.Samples) < 3 && (r.NonTrivial || out.Runs > 50) {
			out.Samples = append(out.Samples, Sample{Plan: p, Steps: r.Steps, VirtualMs: float64(r.VT) / 1e6, Faults: r.Faults, Outcome: outcome(r)})
		}
		if r.Viol != nil {
			sig := r.Viol.Signature()
			if !known[sig] {
				unlisted++
			}
			if f := a.found[sig]; f != nil && !f.Unstable {
				f.Count++
			} else if len(a.found) < 6 || (f != nil && f.Unstable && unstableRetries < 20) {
				if f != nil {
					unstableRetries++
					for i, x := range out.Found {
						if x == f {
							out.Found = append(out.Found[:i], out.Found[i+1:]...)
							break
						}
					}
				}
				f := &Found{Violation: *r.Viol, Count: 1}
				a.found[sig] = f
				out.Found = append(out.Found, f)
				if in.RawLib {
					// not replayable: keep the unminimised plan as the report
					f.Replay = "(uninstrumented cross-check: not replayable) plan=" + p.String()
				} else {
					minimise(t, sc, &in, p, r, seed, runID, f, out)
				}
			}
		}
		return r
	}

	// enumerated part: base plans dealt round-robin over the workers
	if sc.Enum != nil {
		plans := sc.Enum(in.Thorough)
		out.EnumTotal = len(plans)
		for i, p := range plans {
			if i%in.Workers != in.Worker {
				continue
			}
			if unlisted >= enough {
				out.StoppedEarly = true
				break
			}
			out.EnumBases++
			seed := Mix(in.Seed, StrSeed(in.Prop), uint64(i), 0xE)
			sweepC := p.X("sweep_cancel") == 1
			sweepA := p.X("sweep_abandon") == 1
			base := p.Clone()
			r := handle(p, "enum-"+strconv.Itoa(i), seed, true)
			if r.Viol != nil || !r.Quiescent {
				// the fault-free base run already failed (or never settled):
				// sweeping faults over it would only repeat that
				continue
			}
			if sweepC {
				L := min(r.Steps, 2000)
				for k := 0; k <= L && unlisted < enough; k++ {
					q := base.Clone()
					q.CancelStep = k
					handle(q, fmt.Sprintf("enum-%d-cancel@%d", i, k), seed, true)
				}
			}
			if sweepA {
				for ci := range base.Consumers {
					maxK := p.X("sweep_abandon_max")
					for k := 0; k <= maxK && unlisted < enough; k++ {
						q := base.Clone()
						q.Consumers[ci].Abandon = k
						q.CancelAtEnd = true
						handle(q, fmt.Sprintf("enum-%d-abandon%d@%d", i, ci, k), seed, true)
					}
				}
			}
		}
	}
	// random part
	for i := in.Worker; i < in.Random; i += in.Workers {
		if in.WallLimit > 0 && time.Since(start) > time.Duration(in.WallLimit)*time.Second {
			break
		}
		if unlisted >= enough {
			out.StoppedEarly = true
			break
		}
		seed := Mix(in.Seed, StrSeed(in.Prop), uint64(i), 0xA)
		p := sc.Gen(NewRand(seed), in.Thorough)
		handle(p, "rand-"+strconv.Itoa(i), Mix(seed, 1), false)
	}
	write()
}

func keys(m map[uint64]struct{}) []uint64 {
	ks := make([]uint64, 0, len(m))
	for k := range m {
		ks = append(ks, k)
	}
	sort.Slice(ks, func(i, j int) bool { return ks[i] < ks[j] })
	return ks
}

// minimise re-executes the failing run from its tape (it must fail the same
// way: otherwise the simulator is not deterministic — exit 2), shrinks plan and
// tape while the same clause fails, and writes the replay file.
func minimise(t *testing.T, sc *Scenario, in *WorkerIn, p *Plan, r *RunResult, seed uint64, runID string, f *Found, out *WorkerOut) {
	clause, class := r.Viol.Clause, r.Viol.Class
	tape := append([]uint32(nil), r.Tape...)
	try := func(q *Plan, tp []uint32) *RunResult {
		if sc.Valid != nil && !sc.Valid(q) {
			return nil
		}
		rr := Execute(t, sc, q, NewReplayChooser(tp), in.MaxSteps, false)
		progress.Add(1)
		if rr.Infra != "" {
			return nil
		}
		if rr.Viol != nil && rr.Viol.Clause == clause && rr.Viol.Class == class {
			return rr
		}
		return nil
	}
	again := try(p, tape)
	if again == nil || again.Hash != r.Hash {
		// The run did not fail the same way when re-executed in this process.
		// Either the simulator is nondeterministic, or the library keeps state
		// across runs (this process has executed many runs before this one).
		// A fresh process decides: the unminimised run is written as it is and
		// cmd/check replays it; if it does not reproduce there, that is exit 2.
		got := "no violation"
		if again != nil {
			got = fmt.Sprintf("hash %x vs %x", again.Hash, r.Hash)
		}
		fmt.Fprintf(os.Stderr, "note: run %s (%s) did not replay from its own tape in-process: %s; deferring to a fresh process\nplan=%s\n", runID, clause, got, p)
		rf := ReplayFile{Property: in.Prop, Clause: r.Viol.Clause, Stage: r.Viol.Stage, Class: r.Viol.Class, Msg: r.Viol.Msg,
			Seed: in.Seed, Run: runID, Plan: p, Tape: tape, Hash: r.Hash, Steps: r.Steps, Procs: in.Procs}
		_ = os.MkdirAll(in.ReplayDir, 0o755)
		name := filepath.Join(in.ReplayDir, fmt.Sprintf("%s-%d-w%d-%d-unstable.json", in.Prop, in.Seed, in.Worker, nextReplayN()))
		b, _ := json.MarshalIndent(rf, "", " ")
		if err := os.WriteFile(name, b, 0o644); err != nil {
			fmt.Fprintln(os.Stderr, "INFRA: cannot write replay file:", err)
			os.Exit(2)
		}
		f.Replay = name
		f.Unstable = true
		return
	}
	cur, curTape := p, tape
	deadline := time.Now().Add(8 * time.Second)
	// 1. plan level
	for changed := true; changed && time.Now().Before(deadline); {
		changed = false
		for _, q := range cur.Shrink() {
			if try(q, curTape) != nil {
				cur, changed = q, true
				break
			}
			if time.Now().After(deadline) {
				break
			}
		}
	}
	// 2. schedule level: truncate (tail becomes the fair default), zero chunks
	lo, hi := 0, len(curTape)
	for lo < hi && time.Now().Before(deadline) {
		mid := (lo + hi) / 2
		if try(cur, curTape[:mid]) != nil {
			hi = mid
		} else {
			lo = mid + 1
		}
	}
	if hi < len(curTape) && try(cur, curTape[:hi]) != nil {
		curTape = curTape[:hi]
	}
	for chunk := len(curTape) / 2; chunk >= 1 && time.Now().Before(deadline); chunk /= 2 {
		for i := 0; i+chunk <= len(curTape); i += chunk {
			allZero := true
			for _, v := range curTape[i : i+chunk] {
				if v != 0 {
					allZero = false
				}
			}
			if allZero {
				continue
			}
			cand := append([]uint32(nil), curTape...)
			for j := i; j < i+chunk; j++ {
				cand[j] = 0
			}
			if try(cur, cand) != nil {
				curTape = cand
			}
		}
	}
	// plan level once more (the shorter schedule may allow more)
	for changed := true; changed && time.Now().Before(deadline); {
		changed = false
		for _, q := range cur.Shrink() {
			if try(q, curTape) != nil {
				cur, changed = q, true
				break
			}
		}
	}
	final := Execute(t, sc, cur, NewReplayChooser(curTape), in.MaxSteps, true)
	progress.Add(1)
	if final.Viol == nil || final.Viol.Clause != clause || final.Viol.Class != class {
		// should not happen: fall back to the unminimised run
		cur, curTape = p, tape
		final = Execute(t, sc, cur, NewReplayChooser(curTape), in.MaxSteps, true)
	}
	rf := ReplayFile{Property: in.Prop, Clause: final.Viol.Clause, Stage: final.Viol.Stage, Class: final.Viol.Class, Msg: final.Viol.Msg,
		Seed: in.Seed, Run: runID, Plan: cur, Tape: curTape, Hash: final.Hash, Steps: final.Steps, Events: final.Events, Procs: in.Procs}
	for _, ti := range final.Tasks {
		rf.Tasks = append(rf.Tasks, fmt.Sprintf("T%d %s lib=%v %s@%s %s", ti.ID, ti.Name, ti.Lib, ti.State, ti.Site, ti.Panic))
	}
	f.Violation = *final.Viol
	f.MinSteps = final.Steps
	_ = os.MkdirAll(in.ReplayDir, 0o755)
	name := filepath.Join(in.ReplayDir, fmt.Sprintf("%s-%d-w%d-%d.json", in.Prop, in.Seed, in.Worker, nextReplayN()))
	b, _ := json.MarshalIndent(rf, "", " ")
	if err := os.WriteFile(name, b, 0o644); err != nil {
		fmt.Fprintln(os.Stderr, "INFRA: cannot write replay file:", err)
		os.Exit(2)
	}
	f.Replay = name
}
