package driver

import (
	"verif/sim/simrt"
)

// Rand is a SplitMix64 generator: stable across Go releases, so that one
// VERIF_SEED is one execution for ever.
type Rand struct{ s uint64 }

func NewRand(seed uint64) *Rand { return &Rand{s: seed} }

func (r *Rand) Uint64() uint64 {
	r.s += 0x9E3779B97F4A7C15
	z := r.s
	z = (z ^ (z >> 30)) * 0xBF58476D1CE4E5B9
	z = (z ^ (z >> 27)) * 0x94D049BB133111EB
	return z ^ (z >> 31)
}

// Intn returns a value in [0,n); n<=0 yields 0.
func (r *Rand) Intn(n int) int {
	if n <= 1 {
		return 0
	}
	return int(r.Uint64() % uint64(n))
}

// Chance is true with probability num/den.
func (r *Rand) Chance(num, den int) bool { return r.Intn(den) < num }

// Pick returns one of xs.
func Pick[T any](r *Rand, xs ...T) T { return xs[r.Intn(len(xs))] }

// Mix derives a sub-seed.
func Mix(seed uint64, parts ...uint64) uint64 {
	r := NewRand(seed)
	h := r.Uint64()
	for _, p := range parts {
		r.s ^= p * 0x9E3779B97F4A7C15
		h ^= r.Uint64()
	}
	return h
}

func StrSeed(s string) uint64 {
	h := uint64(1469598103934665603)
	for i := 0; i < len(s); i++ {
		h ^= uint64(s[i])
		h *= 1099511628211
	}
	return h
}

// Scheduling policies (chosen per run).
const (
	PolUniform  = "uniform"  // uniformly random runnable task
	PolPCT      = "pct"      // random priorities with a few priority-change points
	PolRunBlock = "rununtil" // keep running the same task until it blocks (unit-test-like)
	PolLibFirst = "libfirst" // library tasks before environment tasks (library infinitely fast)
	PolEnvFirst = "envfirst" // environment before library (library starved)
	PolStarve   = "starve"   // uniform, but one task is not scheduled for a window
	PolRR       = "roundrobin"
	PolLowest   = "lowest" // always the lowest runnable id (tape of zeros)
	PolHighest  = "highest"
)

var AllPolicies = []string{PolUniform, PolPCT, PolRunBlock, PolLibFirst, PolEnvFirst, PolStarve, PolRR, PolLowest, PolHighest}

// Chooser turns the seed into decisions and records them on the tape; or
// replays a tape. A value beyond the end of the tape (or beyond Budget in
// generation mode) is the fair default: round-robin over runnable tasks,
// per-site rotation of select polling orders, no preemption, no eviction.
type Chooser struct {
	Replay bool
	Tape   []uint32
	pos    int
	Budget int // generation mode: number of decisions drawn from the policy
	rng    *Rand
	Policy string

	// policy state
	prio      map[int]int
	changeAt  []int
	last      int
	starveID  int
	starveLo  int
	starveHi  int
	taskSteps int

	// fair default state
	rrLast int
	selCtr map[string]int

	Decisions   int
	FairDefault int
	MultiTask   int // task decisions with >= 2 runnable
}

func NewGenChooser(seed uint64, policy string, budget int) *Chooser {
	c := &Chooser{rng: NewRand(seed), Policy: policy, Budget: budget, prio: map[int]int{}, selCtr: map[string]int{}, rrLast: -1, last: -1}
	if policy == PolPCT {
		d := 1 + c.rng.Intn(3)
		for i := 0; i < d; i++ {
			c.changeAt = append(c.changeAt, c.rng.Intn(120))
		}
	}
	if policy == PolStarve {
		c.starveID = c.rng.Intn(6)
		c.starveLo = c.rng.Intn(40)
		c.starveHi = c.starveLo + 5 + c.rng.Intn(120)
	}
	return c
}

func NewReplayChooser(tape []uint32) *Chooser {
	return &Chooser{Replay: true, Tape: tape, selCtr: map[string]int{}, rrLast: -1, last: -1}
}

// exhausted reports whether the next decision is a fair default.
func (c *Chooser) exhausted() bool {
	if c.Replay {
		return c.pos >= len(c.Tape)
	}
	return c.pos >= c.Budget
}

func (c *Chooser) record(v int) int {
	if !c.Replay {
		c.Tape = append(c.Tape, uint32(v))
	}
	c.pos++
	return v
}

// PickTask chooses among runnable tasks (sorted by id).
func (c *Chooser) PickTask(run []*simrt.Task) int {
	c.Decisions++
	c.taskSteps++
	n := len(run)
	if n >= 2 {
		c.MultiTask++
	}
	if c.exhausted() {
		c.FairDefault++
		// round-robin: smallest id greater than the last one picked
		idx := 0
		for i, t := range run {
			if t.ID > c.rrLast {
				idx = i
				break
			}
		}
		c.rrLast = run[idx].ID
		return idx
	}
	if c.Replay {
		v := int(c.Tape[c.pos]) % n
		c.pos++
		c.rrLast = run[v].ID
		return v
	}
	idx := 0
	switch c.Policy {
	case PolUniform:
		idx = c.rng.Intn(n)
	case PolLowest:
		idx = 0
	case PolHighest:
		idx = n - 1
	case PolRR:
		for i, t := range run {
			if t.ID > c.rrLast {
				idx = i
				break
			}
		}
	case PolRunBlock:
		idx = -1
		for i, t := range run {
			if t.ID == c.last {
				idx = i
			}
		}
		if idx < 0 {
			idx = c.rng.Intn(n)
		}
	case PolLibFirst, PolEnvFirst:
		wantLib := c.Policy == PolLibFirst
		var cand []int
		for i, t := range run {
			if t.Lib == wantLib {
				cand = append(cand, i)
			}
		}
		if len(cand) == 0 || c.rng.Intn(16) == 0 {
			idx = c.rng.Intn(n)
		} else {
			idx = cand[c.rng.Intn(len(cand))]
		}
	case PolStarve:
		var cand []int
		for i, t := range run {
			if !(t.ID == c.starveID && c.taskSteps >= c.starveLo && c.taskSteps < c.starveHi) {
				cand = append(cand, i)
			}
		}
		if len(cand) == 0 {
			idx = c.rng.Intn(n)
		} else {
			idx = cand[c.rng.Intn(len(cand))]
		}
	case PolPCT:
		for _, at := range c.changeAt {
			if at == c.taskSteps && c.last >= 0 {
				c.prio[c.last] = -c.taskSteps // demote the task that ran last
			}
		}
		best := -1 << 62
		for i, t := range run {
			p, ok := c.prio[t.ID]
			if !ok {
				p = 1 + c.rng.Intn(1<<20)
				c.prio[t.ID] = p
			}
			if p > best {
				best = p
				idx = i
			}
		}
	default:
		idx = c.rng.Intn(n)
	}
	c.last = run[idx].ID
	c.rrLast = run[idx].ID
	return c.record(idx)
}

// Choose serves simrt: select polling order, preemption, pool eviction and
// environment-level decisions.
func (c *Chooser) Choose(kind simrt.ChoiceKind, n int, key string) int {
	if n <= 1 {
		return 0
	}
	c.Decisions++
	if c.exhausted() {
		c.FairDefault++
		switch kind {
		case simrt.ChSelect:
			v := c.selCtr[key]
			c.selCtr[key] = v + 1
			return v % n
		default:
			return 0
		}
	}
	if c.Replay {
		v := int(c.Tape[c.pos]) % n
		c.pos++
		return v
	}
	v := 0
	switch kind {
	case simrt.ChSelect:
		switch c.Policy {
		case PolLowest, PolRunBlock:
			if c.rng.Intn(8) == 0 {
				v = c.rng.Intn(n)
			}
		default:
			v = c.rng.Intn(n)
		}
	case simrt.ChPreempt:
		if c.rng.Intn(n) == 0 {
			v = 1
		}
	default:
		v = c.rng.Intn(n)
	}
	return c.record(v)
}
