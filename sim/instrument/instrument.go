// Package instrument rewrites a scratch copy of a Go package so that every
// synchronisation point goes through verif/sim/simrt (DESIGN.md §3.3).
//
// It never touches /repo: callers copy the working tree to a scratch directory
// first. Anything it cannot type-check or rewrite is an error (exit 2 at the
// caller), never a verdict.
package instrument

import (
	"bytes"
	"fmt"
	"go/ast"
	"go/format"
	"go/importer"
	"go/parser"
	"go/token"
	"go/types"
	"os"
	"path/filepath"
	"sort"
	"strconv"
	"strings"

	"golang.org/x/tools/go/ast/astutil"
)

const SimrtPath = "verif/sim/simrt"

// Pkg is one package directory to instrument.
type Pkg struct {
	ImportPath string
	Dir        string
}

// Result reports what was rewritten.
type Result struct {
	Sites  []string       // every site id, sorted
	Counts map[string]int // kind -> count
}

// pkgVar is a package-level variable of an instrumented package that is
// redirected to a per-run copy.
type pkgVar struct {
	obj      types.Object
	accessor string // name of the generated accessor function
	pkgPath  string
}

type loaded struct {
	pkg   Pkg
	files []*ast.File
	names []string
	info  *types.Info
	tpkg  *types.Package
}

type imp struct {
	fset   *token.FileSet
	dirs   map[string]string // import path -> dir for packages resolved from scratch
	cache  map[string]*types.Package
	std    types.Importer
	loaded map[string]*loaded
}

func (m *imp) Import(path string) (*types.Package, error) { return m.ImportFrom(path, "", 0) }

func (m *imp) ImportFrom(path, dir string, mode types.ImportMode) (*types.Package, error) {
	if p, ok := m.cache[path]; ok {
		return p, nil
	}
	if d, ok := m.dirs[path]; ok {
		l, err := m.load(Pkg{ImportPath: path, Dir: d})
		if err != nil {
			return nil, err
		}
		return l.tpkg, nil
	}
	if from, ok := m.std.(types.ImporterFrom); ok {
		return from.ImportFrom(path, dir, mode)
	}
	return m.std.Import(path)
}

func (m *imp) load(p Pkg) (*loaded, error) {
	if l, ok := m.loaded[p.ImportPath]; ok {
		return l, nil
	}
	ents, err := os.ReadDir(p.Dir)
	if err != nil {
		return nil, err
	}
	l := &loaded{pkg: p}
	for _, e := range ents {
		n := e.Name()
		if e.IsDir() || !strings.HasSuffix(n, ".go") || strings.HasSuffix(n, "_test.go") {
			continue
		}
		full := filepath.Join(p.Dir, n)
		f, err := parser.ParseFile(m.fset, full, nil, parser.ParseComments)
		if err != nil {
			return nil, fmt.Errorf("parse %s: %w", full, err)
		}
		l.files = append(l.files, f)
		l.names = append(l.names, full)
	}
	if len(l.files) == 0 {
		return nil, fmt.Errorf("no Go files in %s", p.Dir)
	}
	l.info = &types.Info{
		Types: map[ast.Expr]types.TypeAndValue{},
		Uses:  map[*ast.Ident]types.Object{},
		Defs:  map[*ast.Ident]types.Object{},
	}
	conf := types.Config{Importer: m}
	tp, err := conf.Check(p.ImportPath, m.fset, l.files, l.info)
	if err != nil {
		return nil, fmt.Errorf("typecheck %s: %w", p.ImportPath, err)
	}
	l.tpkg = tp
	m.cache[p.ImportPath] = tp
	m.loaded[p.ImportPath] = l
	return l, nil
}

// Run instruments the packages in targets, in place. resolve maps import paths
// of further packages (not instrumented) to directories, so that the type
// checker reads the scratch copies rather than the module cache.
func Run(targets []Pkg, resolve map[string]string) (*Result, error) {
	fset := token.NewFileSet()
	m := &imp{
		fset:   fset,
		dirs:   map[string]string{},
		cache:  map[string]*types.Package{},
		std:    importer.ForCompiler(fset, "source", nil),
		loaded: map[string]*loaded{},
	}
	for k, v := range resolve {
		m.dirs[k] = v
	}
	for _, t := range targets {
		m.dirs[t.ImportPath] = t.Dir
	}
	var ls []*loaded
	for _, t := range targets {
		l, err := m.load(t)
		if err != nil {
			return nil, err
		}
		ls = append(ls, l)
	}
	res := &Result{Counts: map[string]int{}}
	// package-level variables of the instrumented packages get per-run copies
	vars := map[types.Object]*pkgVar{}
	type decl struct {
		file *ast.File
		spec *ast.ValueSpec
		idx  int
		v    *pkgVar
		typ  types.Type
	}
	declsOf := map[*ast.File][]decl{}
	for _, l := range ls {
		for _, f := range l.files {
			for _, d := range f.Decls {
				gd, ok := d.(*ast.GenDecl)
				if !ok || gd.Tok != token.VAR {
					continue
				}
				for _, sp := range gd.Specs {
					vs := sp.(*ast.ValueSpec)
					if len(vs.Values) != 0 && len(vs.Values) != len(vs.Names) {
						continue // tuple assignment from one call: left alone
					}
					for i, name := range vs.Names {
						obj := l.info.Defs[name]
						if name.Name == "_" || obj == nil {
							continue
						}
						v := &pkgVar{obj: obj, accessor: name.Name + "__ptr", pkgPath: l.pkg.ImportPath}
						vars[obj] = v
						declsOf[f] = append(declsOf[f], decl{file: f, spec: vs, idx: i, v: v, typ: obj.Type()})
					}
				}
			}
		}
	}
	for _, l := range ls {
		for i, f := range l.files {
			in := &inst{vars: vars, pkgPath: l.pkg.ImportPath, fset: fset, info: l.info, skip: map[ast.Node]bool{}, chanR: map[*ast.RangeStmt]bool{}, selBlocks: map[*ast.BlockStmt]bool{}, blockPos: map[*ast.BlockStmt]token.Pos{}, res: res}
			astutil.Apply(f, in.pre, in.post)
			for _, d := range declsOf[f] {
				fn, err := in.accessorDecl(f, d.spec, d.idx, d.v, d.typ)
				if err != nil {
					return nil, err
				}
				f.Decls = append(f.Decls, fn...)
				res.Counts["pkgvar"]++
			}
			if in.used {
				astutil.AddImport(fset, f, SimrtPath)
			}
			for _, name := range []string{"sync", "time", "runtime", "context"} {
				if !astutil.UsesImport(f, name) {
					astutil.DeleteImport(fset, f, name)
				}
			}
			// Comment positions are stale after rewriting; keep only what
			// precedes the package clause (build constraints, licence).
			var keep []*ast.CommentGroup
			for _, cg := range f.Comments {
				if cg.End() < f.Package {
					keep = append(keep, cg)
				}
			}
			f.Comments = keep
			f.Doc = nil
			var buf bytes.Buffer
			if err := format.Node(&buf, fset, f); err != nil {
				return nil, fmt.Errorf("format %s: %w", l.names[i], err)
			}
			if err := os.WriteFile(l.names[i], buf.Bytes(), 0o644); err != nil {
				return nil, err
			}
		}
	}
	sort.Strings(res.Sites)
	return res, nil
}

type inst struct {
	vars      map[types.Object]*pkgVar
	pkgPath   string
	fset      *token.FileSet
	info      *types.Info
	skip      map[ast.Node]bool
	chanR     map[*ast.RangeStmt]bool
	selBlocks map[*ast.BlockStmt]bool
	blockPos  map[*ast.BlockStmt]token.Pos // source position of the statement a generated block replaces
	nsel      int
	used      bool
	res       *Result
}

func (in *inst) site(n ast.Node, kind string) ast.Expr { return in.siteAt(n.Pos(), kind) }

func (in *inst) siteAt(pos token.Pos, kind string) ast.Expr {
	p := in.fset.Position(pos)
	id := fmt.Sprintf("%s:%d:%d:%s", filepath.Base(p.Filename), p.Line, p.Column, kind)
	if kind != "stmt" {
		in.res.Sites = append(in.res.Sites, id)
	}
	in.res.Counts[kind]++
	return &ast.BasicLit{Kind: token.STRING, Value: strconv.Quote(id)}
}

func (in *inst) rt(name string) ast.Expr {
	in.used = true
	return &ast.SelectorExpr{X: ast.NewIdent("simrt"), Sel: ast.NewIdent(name)}
}

func (in *inst) call(name string, args ...ast.Expr) *ast.CallExpr {
	return &ast.CallExpr{Fun: in.rt(name), Args: args}
}

func isChan(t types.Type) bool {
	if t == nil {
		return false
	}
	if _, ok := t.Underlying().(*types.Chan); ok {
		return true
	}
	if tp, ok := t.(*types.TypeParam); ok {
		iface, ok := tp.Constraint().Underlying().(*types.Interface)
		if !ok || iface.NumEmbeddeds() == 0 {
			return false
		}
		for i := 0; i < iface.NumEmbeddeds(); i++ {
			switch e := iface.EmbeddedType(i).(type) {
			case *types.Union:
				for j := 0; j < e.Len(); j++ {
					if _, ok := e.Term(j).Type().Underlying().(*types.Chan); !ok {
						return false
					}
				}
			default:
				if _, ok := e.Underlying().(*types.Chan); !ok {
					return false
				}
			}
		}
		return true
	}
	return false
}

func (in *inst) pkgSel(e ast.Expr, path, name string) bool {
	se, ok := e.(*ast.SelectorExpr)
	if !ok || se.Sel.Name != name {
		return false
	}
	id, ok := se.X.(*ast.Ident)
	if !ok {
		return false
	}
	pn, ok := in.info.Uses[id].(*types.PkgName)
	return ok && pn.Imported().Path() == path
}

func (in *inst) pre(c *astutil.Cursor) bool {
	switch n := c.Node().(type) {
	case *ast.SelectStmt:
		for _, cl := range n.Body.List {
			cc := cl.(*ast.CommClause)
			switch s := cc.Comm.(type) {
			case *ast.SendStmt:
				in.skip[s] = true
			case *ast.ExprStmt:
				in.skip[ast.Unparen(s.X)] = true
			case *ast.AssignStmt:
				in.skip[ast.Unparen(s.Rhs[0])] = true
			}
		}
	case *ast.RangeStmt:
		if tv, ok := in.info.Types[n.X]; ok && isChan(tv.Type) {
			in.chanR[n] = true
		}
	}
	return true
}

func (in *inst) post(c *astutil.Cursor) bool {
	switch n := c.Node().(type) {
	case *ast.SendStmt:
		if in.skip[n] {
			return true
		}
		c.Replace(&ast.ExprStmt{X: in.call("Send", in.siteAt(n.Arrow, "send"), n.Chan, n.Value)})
	case *ast.UnaryExpr:
		if n.Op != token.ARROW || in.skip[n] {
			return true
		}
		two := false
		switch p := c.Parent().(type) {
		case *ast.AssignStmt:
			two = len(p.Lhs) == 2 && len(p.Rhs) == 1
		case *ast.ValueSpec:
			two = len(p.Names) == 2 && len(p.Values) == 1
		}
		if two {
			c.Replace(in.call("Recv2", in.site(n, "recv"), n.X))
		} else {
			c.Replace(in.call("Recv", in.site(n, "recv"), n.X))
		}
	case *ast.RangeStmt:
		if in.chanR[n] {
			n.X = in.call("Range", in.site(n, "range"), n.X)
		}
	case *ast.GoStmt:
		c.Replace(in.goStmt(n))
	case *ast.CallExpr:
		if id, ok := n.Fun.(*ast.Ident); ok && id.Name == "close" {
			if _, ok := in.info.Uses[id].(*types.Builtin); ok {
				site := in.site(n, "close")
				n.Fun = in.rt("Close")
				n.Args = append([]ast.Expr{site}, n.Args...)
			}
		}
		switch {
		case in.pkgSel(n.Fun, "time", "Sleep"):
			site := in.site(n, "sleep")
			n.Fun = in.rt("Sleep")
			n.Args = append([]ast.Expr{site}, n.Args...)
		case in.pkgSel(n.Fun, "time", "AfterFunc"):
			site := in.site(n, "afterfunc")
			n.Fun = in.rt("AfterFunc")
			n.Args = append([]ast.Expr{site}, n.Args...)
		case in.pkgSel(n.Fun, "reflect", "Select"):
			site := in.site(n, "rselect")
			n.Fun = in.rt("ReflectSelect")
			n.Args = append([]ast.Expr{site}, n.Args...)
		case in.reflectChanMethod(n) != "":
			name := in.reflectChanMethod(n)
			se := n.Fun.(*ast.SelectorExpr)
			site := in.site(n, "r"+strings.ToLower(name))
			n.Fun = in.rt("R" + name)
			n.Args = append([]ast.Expr{site, se.X}, n.Args...)
		case in.pkgSel(n.Fun, "context", "AfterFunc"):
			site := in.site(n, "ctxafterfunc")
			n.Fun = in.rt("CtxAfterFunc")
			n.Args = append([]ast.Expr{site}, n.Args...)
		case in.pkgSel(n.Fun, "runtime", "Gosched"):
			site := in.site(n, "gosched")
			n.Fun = in.rt("Gosched")
			n.Args = []ast.Expr{site}
		case in.pkgSel(n.Fun, "sync", "NewCond"):
			n.Fun = in.rt("NewCond")
		}
	case *ast.Ident:
		// a use of a package-level variable of an instrumented package
		v := in.vars[in.info.Uses[n]]
		if v == nil || v.pkgPath != in.pkgPath {
			return true
		}
		if se, ok := c.Parent().(*ast.SelectorExpr); ok && se.Sel == n {
			return true
		}
		if kv, ok := c.Parent().(*ast.KeyValueExpr); ok && kv.Key == n {
			if _, isField := in.info.Uses[n].(*types.Var); isField && in.info.Uses[n].(*types.Var).IsField() {
				return true
			}
		}
		c.Replace(&ast.ParenExpr{X: &ast.StarExpr{X: &ast.CallExpr{Fun: ast.NewIdent(v.accessor)}}})
	case *ast.SelectorExpr:
		if v := in.vars[in.info.Uses[n.Sel]]; v != nil && v.pkgPath != in.pkgPath {
			if id, ok := n.X.(*ast.Ident); ok {
				if _, isPkg := in.info.Uses[id].(*types.PkgName); isPkg {
					c.Replace(&ast.ParenExpr{X: &ast.StarExpr{X: &ast.CallExpr{Fun: &ast.SelectorExpr{X: ast.NewIdent(id.Name), Sel: ast.NewIdent(v.accessor)}}}})
					return true
				}
			}
		}
		for _, nm := range []string{"WaitGroup", "Pool", "Mutex", "RWMutex", "Once", "Cond"} {
			if in.pkgSel(n, "sync", nm) {
				in.res.Counts["sync."+nm]++
				c.Replace(in.rt(nm))
			}
		}
	case *ast.SelectStmt:
		b := in.selectStmt(n)
		in.selBlocks[b] = true
		in.blockPos[b] = n.Pos()
		c.Replace(b)
	case *ast.LabeledStmt:
		// `L: select {…}` became `L: { pre…; switch … }`: move the label onto
		// the switch so that `break L` keeps compiling and keeps its meaning.
		if b, ok := n.Stmt.(*ast.BlockStmt); ok && in.selBlocks[b] {
			last := len(b.List) - 1
			b.List[last] = &ast.LabeledStmt{Label: n.Label, Stmt: b.List[last]}
			c.Replace(b)
		}
	case *ast.BlockStmt:
		if in.selBlocks[n] {
			return true
		}
		if _, ok := c.Parent().(*ast.SelectStmt); ok {
			return true
		}
		n.List = in.preemptList(n.List)
	case *ast.CaseClause:
		n.Body = in.preemptList(n.Body)
	}
	return true
}

// preemptList puts an optional scheduling point in front of plain statements.
func (in *inst) preemptList(list []ast.Stmt) []ast.Stmt {
	out := make([]ast.Stmt, 0, len(list)*2)
	for _, st := range list {
		want := false
		switch s := st.(type) {
		case *ast.AssignStmt, *ast.IncDecStmt, *ast.IfStmt, *ast.ForStmt, *ast.RangeStmt, *ast.SwitchStmt, *ast.ReturnStmt:
			want = true
		case *ast.ExprStmt:
			want = true
			if ce, ok := s.X.(*ast.CallExpr); ok {
				if se, ok := ce.Fun.(*ast.SelectorExpr); ok {
					if id, ok := se.X.(*ast.Ident); ok && id.Name == "simrt" {
						want = false
					}
				}
			}
		}
		if b, ok := st.(*ast.BlockStmt); ok && in.selBlocks[b] && in.blockPos[b].IsValid() {
			// a rewritten select: its channel and value operands are evaluated
			// on entry, before Select parks — the window between the previous
			// statement and that evaluation needs its own scheduling point
			out = append(out, &ast.ExprStmt{X: in.call("Preempt", in.siteAt(in.blockPos[b], "stmt"))})
		} else if want && st.Pos().IsValid() {
			out = append(out, &ast.ExprStmt{X: in.call("Preempt", in.site(st, "stmt"))})
		}
		out = append(out, st)
	}
	return out
}

// accessorDecl generates, for the package-level variable names[idx] of spec,
//
//	var x__slot simrt.Slot
//	func x__ptr() *T { return simrt.PkgVar(&x__slot, func() *T { var v T = init; return &v }) }
//
// The original declaration stays (uninstrumented code may refer to it); every
// use inside the instrumented packages goes through the accessor.
func (in *inst) accessorDecl(f *ast.File, spec *ast.ValueSpec, idx int, v *pkgVar, t types.Type) ([]ast.Decl, error) {
	var typeExpr ast.Expr
	if spec.Type != nil {
		typeExpr = spec.Type
	} else {
		// print the inferred type with the import names of this file
		syncName := "sync"
		qual := func(p *types.Package) string {
			if p.Path() == in.pkgPath {
				return ""
			}
			if p.Path() == "sync" {
				// the sync types are replaced: mark them, rewrite below
				for _, imp := range f.Imports {
					if path, _ := strconv.Unquote(imp.Path.Value); path == "sync" && imp.Name != nil {
						syncName = imp.Name.Name
					}
				}
				return "sync__orig"
			}
			for _, imp := range f.Imports {
				path, _ := strconv.Unquote(imp.Path.Value)
				if path == p.Path() {
					if imp.Name != nil {
						return imp.Name.Name
					}
					return p.Name()
				}
			}
			return p.Name()
		}
		src := types.TypeString(t, qual)
		e, err := parser.ParseExpr(src)
		if err != nil {
			return nil, fmt.Errorf("package variable %s: cannot express its type %s: %w", v.obj.Name(), src, err)
		}
		// the inferred type names the original sync types; the initialiser
		// (rewritten with the rest of the file) builds their replacements
		typeExpr = astutil.Apply(e, func(c *astutil.Cursor) bool {
			se, ok := c.Node().(*ast.SelectorExpr)
			if !ok {
				return true
			}
			id, ok := se.X.(*ast.Ident)
			if !ok || id.Name != "sync__orig" {
				return true
			}
			for _, nm := range []string{"WaitGroup", "Pool", "Mutex", "RWMutex", "Once", "Cond"} {
				if se.Sel.Name == nm {
					c.Replace(in.rt(nm))
					return false
				}
			}
			id.Name = syncName
			return false
		}, nil).(ast.Expr)
	}
	name := v.obj.Name()
	slot := ast.NewIdent(name + "__slot")
	local := ast.NewIdent("v")
	vs := &ast.ValueSpec{Names: []*ast.Ident{local}, Type: typeExpr}
	if idx < len(spec.Values) {
		vs.Values = []ast.Expr{spec.Values[idx]}
	}
	ptrT := &ast.StarExpr{X: typeExpr}
	mk := &ast.FuncLit{
		Type: &ast.FuncType{Params: &ast.FieldList{}, Results: &ast.FieldList{List: []*ast.Field{{Type: ptrT}}}},
		Body: &ast.BlockStmt{List: []ast.Stmt{
			&ast.DeclStmt{Decl: &ast.GenDecl{Tok: token.VAR, Specs: []ast.Spec{vs}}},
			&ast.ReturnStmt{Results: []ast.Expr{&ast.UnaryExpr{Op: token.AND, X: local}}},
		}},
	}
	fn := &ast.FuncDecl{
		Name: ast.NewIdent(v.accessor),
		Type: &ast.FuncType{Params: &ast.FieldList{}, Results: &ast.FieldList{List: []*ast.Field{{Type: ptrT}}}},
		Body: &ast.BlockStmt{List: []ast.Stmt{&ast.ReturnStmt{Results: []ast.Expr{
			in.call("PkgVar", &ast.UnaryExpr{Op: token.AND, X: slot}, mk),
		}}}},
	}
	slotDecl := &ast.GenDecl{Tok: token.VAR, Specs: []ast.Spec{&ast.ValueSpec{Names: []*ast.Ident{slot}, Type: in.rt("Slot")}}}
	return []ast.Decl{slotDecl, fn}, nil
}

// reflectChanMethod returns the name of the channel method called on a
// reflect.Value (Send, Recv, TrySend, TryRecv, Close), or "".
func (in *inst) reflectChanMethod(n *ast.CallExpr) string {
	se, ok := n.Fun.(*ast.SelectorExpr)
	if !ok {
		return ""
	}
	switch se.Sel.Name {
	case "Send", "Recv", "TrySend", "TryRecv", "Close":
	default:
		return ""
	}
	tv, ok := in.info.Types[se.X]
	if !ok || tv.Type == nil {
		return ""
	}
	if named, ok := tv.Type.(*types.Named); ok && named.Obj().Pkg() != nil && named.Obj().Pkg().Path() == "reflect" && named.Obj().Name() == "Value" {
		return se.Sel.Name
	}
	return ""
}

// isDeclaredFunc reports whether e names a package-level function (of this or
// another package), possibly with explicit type arguments.
func (in *inst) isDeclaredFunc(e ast.Expr) bool {
	switch x := e.(type) {
	case *ast.IndexExpr:
		return in.isDeclaredFunc(x.X)
	case *ast.IndexListExpr:
		return in.isDeclaredFunc(x.X)
	case *ast.Ident:
		f, ok := in.info.Uses[x].(*types.Func)
		return ok && f.Type().(*types.Signature).Recv() == nil
	case *ast.SelectorExpr:
		if id, ok := x.X.(*ast.Ident); ok {
			if _, isPkg := in.info.Uses[id].(*types.PkgName); isPkg {
				f, ok := in.info.Uses[x.Sel].(*types.Func)
				return ok && f.Type().(*types.Signature).Recv() == nil
			}
		}
	}
	return false
}

func (in *inst) goStmt(n *ast.GoStmt) ast.Stmt {
	site := in.site(n, "go")
	if fl, ok := n.Call.Fun.(*ast.FuncLit); ok && len(n.Call.Args) == 0 {
		return &ast.ExprStmt{X: in.call("Go", site, fl)}
	}
	in.nsel++
	pfx := fmt.Sprintf("_g%d_", in.nsel)
	var stmts []ast.Stmt
	var fn ast.Expr = ast.NewIdent(pfx + "f")
	if in.isDeclaredFunc(n.Call.Fun) {
		// a declared (possibly generic) function: nothing to evaluate at the go
		// statement, and a generic one cannot be used without instantiation
		fn = n.Call.Fun
	} else {
		stmts = append(stmts, &ast.AssignStmt{Lhs: []ast.Expr{fn}, Tok: token.DEFINE, Rhs: []ast.Expr{n.Call.Fun}})
	}
	var args []ast.Expr
	for i, a := range n.Call.Args {
		id := ast.NewIdent(fmt.Sprintf("%sa%d", pfx, i))
		stmts = append(stmts, &ast.AssignStmt{Lhs: []ast.Expr{id}, Tok: token.DEFINE, Rhs: []ast.Expr{a}})
		args = append(args, id)
	}
	body := &ast.BlockStmt{List: []ast.Stmt{&ast.ExprStmt{X: &ast.CallExpr{Fun: fn, Args: args, Ellipsis: n.Call.Ellipsis}}}}
	lit := &ast.FuncLit{Type: &ast.FuncType{Params: &ast.FieldList{}}, Body: body}
	stmts = append(stmts, &ast.ExprStmt{X: in.call("Go", site, lit)})
	b := &ast.BlockStmt{List: stmts}
	in.selBlocks[b] = true
	return b
}

func (in *inst) selectStmt(n *ast.SelectStmt) *ast.BlockStmt {
	in.nsel++
	pfx := fmt.Sprintf("_s%d_", in.nsel)
	sel := ast.NewIdent(pfx + "r")
	site := in.site(n, "select")
	var pre []ast.Stmt
	var cases []ast.Expr
	var clauses []ast.Stmt
	hasDefault := "false"
	idx := 0
	for _, cl := range n.Body.List {
		cc := cl.(*ast.CommClause)
		if cc.Comm == nil {
			hasDefault = "true"
			clauses = append(clauses, &ast.CaseClause{List: nil, Body: in.preemptList(cc.Body)})
			continue
		}
		ch := ast.NewIdent(fmt.Sprintf("%sc%d", pfx, idx))
		var body []ast.Stmt
		switch s := cc.Comm.(type) {
		case *ast.SendStmt:
			v := ast.NewIdent(fmt.Sprintf("%sv%d", pfx, idx))
			pre = append(pre,
				&ast.AssignStmt{Lhs: []ast.Expr{ch}, Tok: token.DEFINE, Rhs: []ast.Expr{s.Chan}},
				&ast.AssignStmt{Lhs: []ast.Expr{v}, Tok: token.DEFINE, Rhs: []ast.Expr{in.call("ValueFor", ch, s.Value)}})
			cases = append(cases, in.call("Snd", ch, v))
		case *ast.ExprStmt:
			rx := ast.Unparen(s.X).(*ast.UnaryExpr)
			pre = append(pre, &ast.AssignStmt{Lhs: []ast.Expr{ch}, Tok: token.DEFINE, Rhs: []ast.Expr{rx.X}})
			cases = append(cases, in.call("R", ch))
		case *ast.AssignStmt:
			rx := ast.Unparen(s.Rhs[0]).(*ast.UnaryExpr)
			pre = append(pre, &ast.AssignStmt{Lhs: []ast.Expr{ch}, Tok: token.DEFINE, Rhs: []ast.Expr{rx.X}})
			cases = append(cases, in.call("R", ch))
			rhs := []ast.Expr{in.call("Val", ch, sel)}
			if len(s.Lhs) == 2 {
				rhs = append(rhs, &ast.SelectorExpr{X: sel, Sel: ast.NewIdent("OK")})
			}
			tok := s.Tok
			allBlank := true
			for _, l := range s.Lhs {
				if id, ok := l.(*ast.Ident); !ok || id.Name != "_" {
					allBlank = false
				}
			}
			if allBlank {
				tok = token.ASSIGN
			}
			body = append(body, &ast.AssignStmt{Lhs: s.Lhs, Tok: tok, Rhs: rhs})
			if tok == token.DEFINE {
				// a variable bound by the clause may legitimately be unused
				for _, l := range s.Lhs {
					if id, ok := l.(*ast.Ident); ok && id.Name != "_" {
						body = append(body, &ast.AssignStmt{Lhs: []ast.Expr{ast.NewIdent("_")}, Tok: token.ASSIGN, Rhs: []ast.Expr{ast.NewIdent(id.Name)}})
					}
				}
			}
		}
		body = append(body, in.preemptList(cc.Body)...)
		clauses = append(clauses, &ast.CaseClause{List: []ast.Expr{&ast.BasicLit{Kind: token.INT, Value: strconv.Itoa(idx)}}, Body: body})
		idx++
	}
	if hasDefault == "false" {
		// a select whose clauses all end in terminating statements is itself a
		// terminating statement; a switch is one only with a default clause.
		// Select never returns an index outside the clauses.
		clauses = append(clauses, &ast.CaseClause{List: nil, Body: []ast.Stmt{
			&ast.ExprStmt{X: &ast.CallExpr{Fun: ast.NewIdent("panic"), Args: []ast.Expr{&ast.BasicLit{Kind: token.STRING, Value: strconv.Quote("simrt: select returned no clause")}}}}}})
	}
	args := append([]ast.Expr{site, ast.NewIdent(hasDefault)}, cases...)
	pre = append(pre, &ast.AssignStmt{Lhs: []ast.Expr{sel}, Tok: token.DEFINE, Rhs: []ast.Expr{in.call("Select", args...)}})
	// `_ = sel` keeps the result "used" when there are no receive bindings
	pre = append(pre, &ast.AssignStmt{Lhs: []ast.Expr{ast.NewIdent("_")}, Tok: token.ASSIGN, Rhs: []ast.Expr{sel}})
	sw := &ast.SwitchStmt{Tag: &ast.SelectorExpr{X: sel, Sel: ast.NewIdent("I")}, Body: &ast.BlockStmt{List: clauses}}
	return &ast.BlockStmt{List: append(pre, sw)}
}
