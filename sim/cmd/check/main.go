// check is the orchestrator behind every quick_cmd / thorough_cmd in
// MANIFEST.json:
//
//	check <property> [--tier quick|thorough] [--replay file] [--seed n]
//
// It stages /repo's current working tree into a scratch directory, instruments
// the copy (pipesim engine), builds the worker test binary against it, fans out
// worker processes, collects their reports, confirms every violation by
// replaying its minimised file in a fresh process, writes
// /verif/evidence/<id>.json and removes the scratch directory.
//
// Exit status: 0 the property held on everything explored; 1 with a line
// "VIOLATION property=<id> replay=<path>" otherwise; 2 infrastructure trouble
// (build, instrumentation, watchdog, nondeterminism) — never a verdict.
package main

import (
	"crypto/sha256"
	"encoding/json"
	"flag"
	"fmt"
	"io"
	"io/fs"
	"os"
	"os/exec"
	"path/filepath"
	"runtime"
	"sort"
	"strconv"
	"strings"
	"sync"
	"time"

	"verif/sim/driver"
	"verif/sim/instrument"
)

// repo and verif can be redirected for background runs on snapshots
// (vp run --with-repo); the registered commands use the defaults.
var (
	repo  = envOr("VERIF_REPO", "/repo")
	verif = envOr("VERIF_HOME", "/verif")
)

const (
	goBin    = "go1.26.8"
	pipePath = "github.com/fogfish/golem/pipe/v2"
	purePath = "github.com/fogfish/golem/pure"
)

type propCfg struct {
	Engine       string // pipesim | seqsim
	Level        string // exploration | fault_enumeration
	QuickRandom  int
	QuickWall    int // seconds, soft limit for the random part
	ThoroughRand int
	ThoroughWall int
	Rule         string
	Assumptions  []string
}

var pipesimAssume = []string{
	"Go 1.26.8 testing/synctest: fake clock and quiescence detection are correct",
	"reflect channel operations (TrySend/TryRecv/Select) are equivalent to the statements they replace",
	"the AST instrumenter preserves the semantics of the staged sources (its rewrites are listed in DESIGN.md §3.3)",
	"computation costs zero virtual time; only Sleep/After/deadlines consume time",
	"statement-level preemption approximates, but does not equal, the Go memory model",
}

var rawMode bool

// coverOut: --cover <file>: build the worker with statement coverage of the
// staged library and report what no simulated run executed (a reach measure
// used while widening workloads; never part of a verdict).
var coverOut string

var props = map[string]propCfg{
	"C05": {Engine: "pipesim", Level: "exploration", QuickRandom: 150000, QuickWall: 20, ThoroughRand: 40000000, ThoroughWall: 540,
		Rule: "one case = one simulated run (plan + schedule tape). Enumerated: every sequential stage x capacity {0,1,2,5} x input length 0..3 (thorough 0..5) x function variants x 6 base schedules; then seeded random plans (stage, length, capacity, Take n, function, paces, policy, preemption). " + distinctRule},
	"C06": {Engine: "pipesim", Level: "fault_enumeration", QuickRandom: 150000, QuickWall: 20, ThoroughRand: 40000000, ThoroughWall: 540,
		Rule: "one case = one simulated run (plan + fault plan + schedule tape). Enumerated (complete for that sub-space): 14 stages x capacity {0,1,2} x input length 0..3 x 4 base schedules (thorough: length 0..4, 6 schedules), each base run re-run with the cancel injected before every step k=0..L and with each consumer walking away after every k=0..len+1 elements; then seeded random plans with cancel (step, virtual-time, at quiescence), abandonment, never-closing inputs, stalls, failing functions. " + distinctRule},
}

var seqsimAssume = []string{
	"no concurrency, I/O or timers exist in the code under test: only the fault seam (C16) / clock seam (C18) is simulated",
	"Go 1.26.8 testing/synctest fake clock (C18)",
	"the reference models (30-line tree builder; Go map + total order) are written from the property text",
}

func init() {
	props["C16"] = propCfg{Engine: "seqsim", Level: "fault_enumeration", QuickRandom: 100000, QuickWall: 20, ThoroughRand: 3000000, ThoroughWall: 540, Assumptions: seqsimAssume,
		Rule: "one case = one visit (Morphism.Apply) of one program. Programs: every well-typed program of Join/LiftF/WrapF/Unit/Yield up to length 5 (thorough 6) after From over the type universe int, []int, [][]int, [][][]int, Void (exhaustive), plus seeded random programs up to length 9 (thorough 14), nesting depth <= 6. For each program: the fault-free visit (twice), then one visit per callback position k with the visitor failing exactly there (exhaustive over k), each followed by a fault-free visit of the same program value. Random programs also use F/T values that are zero values or converted from another instantiation, and are visited between construction steps. evaluations = visits; distinct = distinct programs; non-trivial = program opens at least one nested context."}
	props["C18"] = propCfg{Engine: "seqsim", Level: "exploration", QuickRandom: 240000, QuickWall: 20, ThoroughRand: 600000, ThoroughWall: 540, Assumptions: seqsimAssume,
		Rule: "one case = one operation history executed against the real skip list and a Go map, inside a bubble whose simulated clock (the seed of the height generator) was advanced to a chosen offset before skiplist.New. Enumerated: every history of Put/Get/Remove over keys {1,2,3} x values {1,2} up to length 4 (thorough 5) x 6 clock offsets (thorough 10); then seeded random histories (quick <= 40 operations, thorough <= 2000; universes of 2..64 keys; int, reversed int and string keys; churn / descending / overwrite / one-key-hammering biases; values that are slices or maps; random clock offsets), plus one long-lived list per check (2^22 rounds of Put/Get/Remove over three keys, then 2^21 further keys live at once; thorough 2^24 rounds). After every operation (or at drawn positions) the printed form is parsed and checked. Distinct = distinct (history, clock offset); non-trivial = removes a present key or overwrites one."}
	props["C11"] = propCfg{Engine: "pipesim", Level: "exploration", QuickRandom: 150000, QuickWall: 20, ThoroughRand: 40000000, ThoroughWall: 540,
		Rule: "one case = one simulated run of Emit or Unfold on the virtual clock. Enumerated: {Emit,Unfold} x capacity {0,1,2,5} x consumer takes 0..4 values (thorough 0..7) x 6 base schedules x 3 consumer paces (always ready, fixed slower pace, burst after a long stall), cancel swept over every step; then seeded random plans: function family, frequency {1ms,10ms,1s}, Try-mode failing index sets, consumer paces, cancel by step / virtual time / after the consumer left. Oracles: k-th value exact (online), calls at least one frequency apart, k-th value not before k ticks, always-ready consumer receives exactly one value per tick, close and exit after cancel. " + distinctRule}
	props["C12"] = propCfg{Engine: "pipesim", Level: "exploration", QuickRandom: 150000, QuickWall: 20, ThoroughRand: 40000000, ThoroughWall: 540,
		Rule: "one case = one simulated run of Join with 0..5 inputs, one producer task per input (random part: up to 17 inputs). Enumerated: 14 input shapes incl. 8, 9 and 17 inputs (thorough 18) x capacity {0,1,3} x 6 base schedules x {plain, one input closing long after the others, slow consumer}; then seeded random plans (lengths <= 6, thorough <= 30; independent paces; one deliberately slow input; an input that never closes; contexts that cannot be cancelled). Oracles: per-input order online, completeness, close observed strictly after every producer's close and after every element, close does happen, no close when an input stays open, and no completed send held back by another input that stays open. " + distinctRule}
	props["C13"] = propCfg{Engine: "pipesim", Level: "exploration", QuickRandom: 150000, QuickWall: 20, ThoroughRand: 40000000, ThoroughWall: 540,
		Rule: "one case = one simulated run of Throttling on the virtual clock. Enumerated: ops {1,2} (thorough 1..3) x c {0,1,3} x 4 lengths x 6 base schedules x {saturated, consumer late by 2.5 intervals, input late by 2.5 intervals, slow consumer}; then seeded random plans: ops {1,2,3,5}, interval {10ms,100ms,1s}, idle-then-burst on either side, idle in the middle, random paces, cancel. Oracles: order/content online, window bound 2*ops+1+c over every window of deliveries before cancel, interval membership under the saturated schedule, closure. " + distinctRule}
	props["C09"] = propCfg{Engine: "pipesim", Level: "exploration", QuickRandom: 150000, QuickWall: 20, ThoroughRand: 40000000, ThoroughWall: 540,
		Rule: "one case = one simulated run of a fork stage (Map, FMap, Filter, Partition, ForEach, Void) with par workers. Enumerated: stage x par {1,2,3} x length 0..4 x 6 base schedules x {pure, Try with failing positions}, cancel swept over every step for par<=2, n<=3 (thorough: par<=4, length<=6); then seeded random plans: par in {1,2,3,4,8}, length <= 3*par (thorough <= 60), stalls and extra scheduling points inside the user function (completion orders), statement-level preemption, cancel, abandonment, never-closing input. " + distinctRule}
	props["C10"] = propCfg{Engine: "pipesim", Level: "exploration", QuickRandom: 150000, QuickWall: 20, ThoroughRand: 40000000, ThoroughWall: 540,
		Rule: "one case = one simulated run of fork.Fold and, on the same input in the same run, pipe.Fold. Enumerated: 8 commutative monoids (sum/0, plain product/1, modular product/1, max/MinInt, min/MaxInt, and/all-ones, or/0, gcd/0) x par {1,2,3,4} x length 0..4 (thorough 0..7) x 6 base schedules; then seeded random plans: par in {1,2,3,4,8}, length <= 20 (also shorter than par and empty), stalls and scheduling points inside Combine (distributions of elements over workers), preemption. Inputs are distinct powers of 8 for sum and distinct primes for the plain product, so that the result encodes how often each element was combined. " + distinctRule}
	props["C08"] = propCfg{Engine: "pipesim", Level: "exploration", QuickRandom: 150000, QuickWall: 20, ThoroughRand: 40000000, ThoroughWall: 540,
		Rule: "one case = one simulated run of pipe.New with 1-3 sender tasks and 1-2 receiver tasks. Enumerated: capacity {0,1,2,5} x 0..4 values (thorough 0..6) x 6 base schedules x 6 shapes (cancel at quiescence, sender close, receiver never receives, cancel swept over every step with an eager and with a late receiver, bursts that drain the queue to empty and refill it) plus a fixed handful of plans with 66000-69000 undelivered values; then seeded random plans (capacity up to 16, several senders/receivers, paces, cancel by step/virtual time, sender close, abandonment, pool eviction). Oracles: online FIFO/no-duplicate/nothing-invented, porcupine linearizability of the Send/Recv history against a sequential FIFO queue (histories <= 24 operations, 0.5 s budget each; a timed-out check is counted as inconclusive in probes, never reported), completeness after cancel and after sender close, senders never blocked. " + distinctRule}
	props["C07"] = propCfg{Engine: "pipesim", Level: "fault_enumeration", QuickRandom: 150000, QuickWall: 20, ThoroughRand: 40000000, ThoroughWall: 540,
		Rule: "one case = one simulated run. Fault = the user function returning an error. Enumerated (complete for that sub-space): {Map,FMap}x{Lift,Try}, Emit x {Lift,Try}, Unfold x Lift, every subset of failing positions for n = 0..4 (thorough 0..6), capacity {0,1,2}, 4 base schedules, 3 consumer orders (concurrent, values first, errors first); then seeded random plans (n <= 6, thorough <= 40; first/last/all/sparse/dense failure patterns; StdErr as the error reader; paces; all policies). " + distinctRule}
}

const distinctRule = "Distinct = distinct hash of the (task,site) release sequence and select outcomes; non-trivial = a fault fired (cancel while library tasks were alive, abandonment, stall, select arbitration against source order, preemption, failing function) or at least 3 scheduling decisions had >= 2 runnable tasks."

func die(code int, format string, args ...any) {
	fmt.Fprintf(os.Stderr, format+"\n", args...)
	os.Exit(code)
}

func main() {
	if len(os.Args) < 2 {
		die(2, "usage: check <property> [--tier quick|thorough] [--replay file]")
	}
	prop := os.Args[1]
	fl := flag.NewFlagSet("check", flag.ExitOnError)
	tier := fl.String("tier", envOr("VERIF_TIER", "quick"), "quick | thorough")
	replay := fl.String("replay", "", "replay file")
	seedS := fl.String("seed", envOr("VERIF_SEED", "1"), "seed")
	workers := fl.Int("workers", runtime.NumCPU(), "worker processes")
	runs := fl.Int("runs", 0, "override the number of random runs")
	wall := fl.Int("wall", 0, "override the soft wall limit (s) of the random part")
	keep := fl.Bool("keep", false, "keep the scratch directory")
	noEvidence := fl.Bool("no-evidence", false, "do not write the evidence file")
	raw := fl.Bool("uninstrumented", false, "cross-check: stage the library WITHOUT instrumentation (library goroutines run under the Go scheduler inside the bubble; only environment tasks are scheduled; not replayable; never writes evidence)")
	noIso := fl.Bool("no-iso", false, "skip the isolated phase (diagnosis: what the bulk phase alone finds; implies --no-evidence)")
	cover := fl.String("cover", "", "write merged library statement coverage of the simulated runs to this file and list blocks never executed (implies --no-evidence)")
	fl.Parse(os.Args[2:])
	coverOut = *cover
	if coverOut != "" {
		*noEvidence = true
	}
	if prop == "selftest" {
		selftest(fl.Args())
		return
	}
	cfg, ok := props[prop]
	if !ok {
		die(2, "unknown property %q", prop)
	}
	if *tier != "quick" && *tier != "thorough" {
		die(2, "unknown tier %q", *tier)
	}
	seed, err := strconv.ParseUint(strings.TrimSpace(*seedS), 10, 64)
	if err != nil {
		// any string is accepted as a seed
		seed = driver.StrSeed(*seedS)
	}
	fmt.Printf("check %s tier=%s VERIF_SEED=%d\n", prop, *tier, seed)
	start := time.Now()

	rawMode = *raw
	if rawMode {
		*noEvidence = true
	}
	st := stage(cfg.Engine, *keep)
	defer st.cleanup()

	if *replay != "" {
		os.Exit(doReplay(st, prop, *replay, true))
	}

	if old, _ := filepath.Glob(filepath.Join(verif, "replays", prop+"-*.json")); len(old) > 0 {
		for _, f := range old {
			os.Remove(f)
		}
	}
	thorough := *tier == "thorough"
	random, wallLimit := cfg.QuickRandom, cfg.QuickWall
	if thorough {
		random, wallLimit = cfg.ThoroughRand, cfg.ThoroughWall
	}
	if *runs > 0 {
		random = *runs
	}
	if *wall > 0 {
		wallLimit = *wall
	}
	isoN := 320
	if thorough {
		isoN = 6000
	}
	if cfg.Engine != "pipesim" || rawMode || *noIso {
		isoN = 0
	}
	if *noIso {
		*noEvidence = true
	}
	isoOuts, isoFound := isolated(st, prop, seed, thorough, *workers, isoN)
	var outs []*driver.WorkerOut
	if isoFound {
		// an isolated run already violates the property: the bulk phase would
		// only add the same verdict (or crash on process-wide library state)
		outs = isoOuts
	} else {
		outs = append(fanout(st, prop, seed, thorough, *workers, random, wallLimit), isoOuts...)
	}
	code := report(st, prop, cfg, *tier, seed, outs, start, !*noEvidence)
	if coverOut != "" {
		mergeCover(st)
	}
	st.cleanup()
	os.Exit(code)
}

func envOr(k, d string) string {
	if v := os.Getenv(k); v != "" {
		return v
	}
	return d
}

// ------------------------------------------------------------------ staging

type staged struct {
	dir         string
	worker      string
	fingerprint string
	sites       []string
	instrCounts map[string]int
	keep        bool
	once        sync.Once
	buildS      float64
}

func (s *staged) cleanup() {
	s.once.Do(func() {
		if !s.keep {
			os.RemoveAll(s.dir)
		} else {
			fmt.Println("scratch kept at", s.dir)
		}
	})
}

func copyTree(src, dst string, h io.Writer) {
	err := filepath.WalkDir(src, func(p string, d fs.DirEntry, err error) error {
		if err != nil {
			return err
		}
		rel, _ := filepath.Rel(src, p)
		if d.IsDir() {
			if d.Name() == "examples" || d.Name() == ".git" {
				return filepath.SkipDir
			}
			return os.MkdirAll(filepath.Join(dst, rel), 0o755)
		}
		n := d.Name()
		if strings.HasSuffix(n, "_test.go") || !(strings.HasSuffix(n, ".go") || n == "go.mod" || n == "go.sum") {
			return nil
		}
		b, err := os.ReadFile(p)
		if err != nil {
			return err
		}
		if h != nil && strings.HasSuffix(n, ".go") {
			fmt.Fprintf(h, "%s\n", rel)
			h.Write(b)
		}
		return os.WriteFile(filepath.Join(dst, rel), b, 0o644)
	})
	if err != nil {
		die(2, "INFRA: staging %s: %v", src, err)
	}
}

func goEnv() []string {
	env := os.Environ()
	env = append(env, "GOFLAGS=-mod=mod", "GOPROXY=off", "GOSUMDB=off", "GOTOOLCHAIN=local", "GOWORK=off")
	return env
}

func stage(engine string, keep bool) *staged {
	t0 := time.Now()
	base := envOr("VERIF_SCRATCH", os.TempDir())
	dir, err := os.MkdirTemp(base, "verif-"+engine+"-")
	if err != nil {
		die(2, "INFRA: scratch dir: %v", err)
	}
	st := &staged{dir: dir, keep: keep}
	h := sha256.New()
	var testPkg string
	mod := "module verif/sim\n\ngo 1.26.8\n\nrequire (\n\tgithub.com/anishathalye/porcupine v1.3.0\n\tgithub.com/fogfish/golem/duct v0.0.0\n\tgithub.com/fogfish/golem/maplike v0.0.0\n\tgithub.com/fogfish/golem/pipe/v2 v2.0.0\n\tgithub.com/fogfish/golem/pure v0.10.1\n\tgolang.org/x/tools v0.50.0\n)\n\n"
	switch engine {
	case "pipesim":
		copyTree(filepath.Join(repo, "pipe"), filepath.Join(dir, "pipe"), h)
		copyTree(filepath.Join(repo, "pure"), filepath.Join(dir, "pure"), h)
		resolve := map[string]string{}
		filepath.WalkDir(filepath.Join(dir, "pure"), func(p string, d fs.DirEntry, err error) error {
			if err == nil && d.IsDir() {
				rel, _ := filepath.Rel(filepath.Join(dir, "pure"), p)
				ip := purePath
				if rel != "." {
					ip += "/" + filepath.ToSlash(rel)
				}
				if ms, _ := filepath.Glob(filepath.Join(p, "*.go")); len(ms) > 0 {
					resolve[ip] = p
				}
			}
			return nil
		})
		if !rawMode {
			res, err := instrument.Run([]instrument.Pkg{
				{ImportPath: pipePath, Dir: filepath.Join(dir, "pipe")},
				{ImportPath: pipePath + "/fork", Dir: filepath.Join(dir, "pipe", "fork")},
			}, resolve)
			if err != nil {
				st.cleanup()
				die(2, "INFRA: instrumentation failed (this is not a verdict): %v", err)
			}
			st.sites = res.Sites
			st.instrCounts = res.Counts
		}
		mod += "replace github.com/fogfish/golem/pipe/v2 => " + filepath.Join(dir, "pipe") + "\n"
		mod += "replace github.com/fogfish/golem/pure => " + filepath.Join(dir, "pure") + "\n"
		mod += "replace github.com/fogfish/golem/duct => " + filepath.Join(repo, "duct") + "\n"
		mod += "replace github.com/fogfish/golem/maplike => " + filepath.Join(dir, "maplike") + "\n"
		stageMaplike(dir, nil)
		testPkg = "./props/pipeprops"
	case "seqsim":
		copyTree(filepath.Join(repo, "duct"), filepath.Join(dir, "duct"), h)
		copyTree(filepath.Join(repo, "pure"), filepath.Join(dir, "pure"), h)
		stageMaplike(dir, h)
		mod += "replace github.com/fogfish/golem/pipe/v2 => " + filepath.Join(repo, "pipe") + "\n"
		mod += "replace github.com/fogfish/golem/pure => " + filepath.Join(dir, "pure") + "\n"
		mod += "replace github.com/fogfish/golem/duct => " + filepath.Join(dir, "duct") + "\n"
		mod += "replace github.com/fogfish/golem/maplike => " + filepath.Join(dir, "maplike") + "\n"
		testPkg = "./props/seqprops"
	default:
		die(2, "unknown engine %s", engine)
	}
	st.fingerprint = fmt.Sprintf("%x", h.Sum(nil))[:16]
	if err := os.WriteFile(filepath.Join(dir, "go.mod"), []byte(mod), 0o644); err != nil {
		die(2, "INFRA: %v", err)
	}
	var sum []byte
	for _, f := range []string{filepath.Join(verif, "sim", "go.sum"), filepath.Join(repo, "pipe", "go.sum"), filepath.Join(repo, "pure", "go.sum"), filepath.Join(repo, "duct", "go.sum")} {
		b, _ := os.ReadFile(f)
		sum = append(sum, b...)
		if len(b) > 0 && b[len(b)-1] != '\n' {
			sum = append(sum, '\n')
		}
	}
	os.WriteFile(filepath.Join(dir, "go.sum"), sum, 0o644)
	st.worker = filepath.Join(dir, "worker.test")
	args := []string{"test", "-c", "-o", st.worker, "-modfile=" + filepath.Join(dir, "go.mod")}
	if coverOut != "" {
		args = append(args, "-cover", "-coverpkg="+pipePath+","+pipePath+"/fork,github.com/fogfish/golem/duct,github.com/fogfish/golem/maplike/skiplist")
	}
	cmd := exec.Command(goBin, append(args, testPkg)...)
	cmd.Dir = filepath.Join(verif, "sim")
	cmd.Env = goEnv()
	if outp, err := cmd.CombinedOutput(); err != nil {
		st.keep = st.keep || os.Getenv("VERIF_KEEP_ON_ERROR") != ""
		st.cleanup()
		die(2, "INFRA: building the worker against the staged tree failed (this is not a verdict):\n%s", outp)
	}
	st.buildS = time.Since(t0).Seconds()
	fmt.Printf("staged %s (fingerprint %s), instrumented %d sites, built worker in %.1fs\n", engine, st.fingerprint, len(st.sites), st.buildS)
	return st
}

// stageMaplike copies internal/maplike under its declared import path.
func stageMaplike(dir string, h io.Writer) {
	dst := filepath.Join(dir, "maplike")
	copyTree(filepath.Join(repo, "internal", "maplike"), dst, h)
	os.WriteFile(filepath.Join(dst, "go.mod"), []byte("module github.com/fogfish/golem/maplike\n\ngo 1.21\n\nrequire github.com/fogfish/golem/pure v0.10.1\n"), 0o644)
}

// ------------------------------------------------------------------ fan-out

func runWorker(st *staged, job driver.WorkerIn) (*driver.WorkerOut, string, int) {
	b, _ := json.Marshal(job)
	wargs := []string{"-test.run", "^TestWorker$", "-test.timeout", "0", "-test.count", "1"}
	if coverOut != "" {
		wargs = append(wargs, "-test.coverprofile="+job.Out+".cov")
	}
	cmd := exec.Command(st.worker, wargs...)
	cmd.Env = append(os.Environ(), "VERIF_JOB="+string(b))
	outp, err := cmd.CombinedOutput()
	code := 0
	if err != nil {
		code = 1
		if ee, ok := err.(*exec.ExitError); ok {
			code = ee.ExitCode()
		}
	}
	var wo driver.WorkerOut
	rb, rerr := os.ReadFile(job.Out)
	if rerr != nil {
		return nil, string(outp), code
	}
	if err := json.Unmarshal(rb, &wo); err != nil {
		return nil, string(outp) + "\nbad worker output: " + err.Error(), 2
	}
	return &wo, string(outp), code
}

func fanout(st *staged, prop string, seed uint64, thorough bool, workers, random, wall int) []*driver.WorkerOut {
	outs := make([]*driver.WorkerOut, workers)
	var knownSigs []string
	for _, k := range loadKnown().Findings {
		knownSigs = append(knownSigs, k.Signature)
	}
	var wg sync.WaitGroup
	var mu sync.Mutex
	failed := ""
	for w := 0; w < workers; w++ {
		wg.Add(1)
		go func(w int) {
			defer wg.Done()
			job := driver.WorkerIn{Prop: prop, Mode: "run", Seed: seed, Thorough: thorough, Worker: w, Workers: workers, Random: random, RawLib: rawMode, Known: knownSigs, Procs: []int{0, 1, 2, 4}[w%4],
				WallLimit: wall, ReplayDir: filepath.Join(st.dir, "replays"), Out: filepath.Join(st.dir, fmt.Sprintf("out-%d.json", w))}
			wo, outp, code := runWorker(st, job)
			mu.Lock()
			defer mu.Unlock()
			if wo == nil || code != 0 || wo.Infra != "" {
				msg := fmt.Sprintf("worker %d exit=%d", w, code)
				if wo != nil && wo.Infra != "" {
					msg += " infra=" + wo.Infra
				}
				failed += msg + "\n" + tail(outp, 60) + "\n"
				return
			}
			outs[w] = wo
		}(w)
	}
	wg.Wait()
	if failed != "" {
		// Worker trouble is never a verdict by itself. It does not erase what
		// the other workers found either: a violation that replays from its
		// file in a fresh process stands; without one the check ends with exit 2.
		os.MkdirAll(filepath.Join(verif, "replays"), 0o755)
		logf := filepath.Join(verif, "replays", fmt.Sprintf("infra-%s-%d.log", prop, time.Now().Unix()))
		os.WriteFile(logf, []byte(failed), 0o644)
		workerTrouble = fmt.Sprintf("INFRA: worker trouble (this is not a verdict; details also in %s):\n%s", logf, failed)
		var ok []*driver.WorkerOut
		for _, o := range outs {
			if o != nil {
				ok = append(ok, o)
			}
		}
		outs = ok
	}
	return outs
}

// workerTrouble is set when worker processes of the bulk phase died or hung.
var workerTrouble string

// isolated runs n plans of the scenario's GenIso, each in a process of its own.
// A process that dies is counted, not fatal: the verdict comes from the runs
// that completed; if none completes, that is infrastructure trouble.
func isolated(st *staged, prop string, seed uint64, thorough bool, workers, n int) ([]*driver.WorkerOut, bool) {
	if n == 0 {
		return nil, false
	}
	outs := make([]*driver.WorkerOut, n)
	var wg sync.WaitGroup
	sem := make(chan struct{}, workers)
	var mu sync.Mutex
	crashed := 0
	firstCrash := ""
	for i := 0; i < n; i++ {
		wg.Add(1)
		go func(i int) {
			defer wg.Done()
			sem <- struct{}{}
			defer func() { <-sem }()
			job := driver.WorkerIn{Prop: prop, Mode: "iso", Seed: seed, Thorough: thorough, Worker: i, Workers: n,
				ReplayDir: filepath.Join(st.dir, "replays"), Out: filepath.Join(st.dir, fmt.Sprintf("iso-%d.json", i)), Procs: []int{0, 1, 2, 4}[i%4]}
			wo, outp, code := runWorker(st, job)
			mu.Lock()
			defer mu.Unlock()
			if wo == nil || code != 0 || wo.Infra != "" {
				crashed++
				if firstCrash == "" {
					firstCrash = tail(outp, 25)
				}
				return
			}
			outs[i] = wo
		}(i)
	}
	wg.Wait()
	var res []*driver.WorkerOut
	found := false
	for _, o := range outs {
		if o != nil {
			res = append(res, o)
			if len(o.Found) > 0 {
				found = true
			}
		}
	}
	if crashed > 0 {
		fmt.Printf("note: %d of %d isolated runs did not complete (first: %s)\n", crashed, n, strings.ReplaceAll(firstCrash, "\n", " | "))
		if len(res) == 0 {
			st.cleanup()
			die(2, "INFRA: no isolated run completed (this is not a verdict):\n%s", firstCrash)
		}
	}
	return res, found
}

func tail(s string, n int) string {
	lines := strings.Split(strings.TrimRight(s, "\n"), "\n")
	if len(lines) > n {
		lines = lines[len(lines)-n:]
	}
	return strings.Join(lines, "\n")
}

// ------------------------------------------------------------------- replay

func doReplay(st *staged, prop, file string, verbose bool) int {
	job := driver.WorkerIn{Prop: prop, Mode: "replay", Replay: file, Out: filepath.Join(st.dir, "replay-out.json"), ReplayDir: filepath.Join(st.dir, "replays")}
	wo, outp, code := runWorker(st, job)
	if wo == nil || code != 0 || wo.Infra != "" {
		fmt.Fprintf(os.Stderr, "INFRA: replay worker failed (exit %d)\n%s\n", code, tail(outp, 40))
		if wo != nil {
			fmt.Fprintln(os.Stderr, wo.Infra)
		}
		return 2
	}
	if verbose {
		for _, l := range wo.ReplayTrace {
			fmt.Println(l)
		}
	}
	if wo.Reproduced {
		f := wo.Found[0]
		if verbose {
			fmt.Printf("reproduced: %s %s: %s\n", f.Clause, f.Class, f.Msg)
			fmt.Printf("VIOLATION property=%s replay=%s\n", prop, file)
		}
		return 1
	}
	if verbose {
		if len(wo.Found) > 0 {
			fmt.Printf("a different clause failed: %s: %s\n", wo.Found[0].Clause, wo.Found[0].Msg)
		} else {
			fmt.Println("the replayed run does not violate the property on this tree")
		}
	}
	return 0
}

// ------------------------------------------------------------- known findings

type knownFinding struct {
	Property  string `json:"property"`
	Signature string `json:"signature"` // property|clause|stage|class
	What      string `json:"what"`
}

type knownFile struct {
	Findings []knownFinding `json:"findings"`
	Fixed    []string       `json:"fixed"`
}

func loadKnown() knownFile {
	var k knownFile
	b, err := os.ReadFile(filepath.Join(verif, "known_findings.json"))
	if err != nil {
		return k
	}
	if err := json.Unmarshal(b, &k); err != nil {
		die(2, "INFRA: known_findings.json: %v", err)
	}
	return k
}

// ------------------------------------------------------------------- report

func report(st *staged, prop string, cfg propCfg, tier string, seed uint64, outs []*driver.WorkerOut, start time.Time, writeEvidence bool) int {
	faults := map[string]int{}
	probes := map[string]int{}
	cover := map[string]int{}
	policies := map[string]int{}
	sched := map[uint64]struct{}{}
	nont := map[uint64]struct{}{}
	states := map[uint64]struct{}{}
	var runs, enumRuns, enumBases, enumTotal, randomRuns, leaks int
	var steps, vns, selMulti, selNon, multiTask, decisions, fairDef int64
	var maxAfter, maxSteps int
	var samples []driver.Sample
	var workerWall float64
	partitioned := false
	stoppedEarly := false
	type foundAgg struct {
		f     *driver.Found
		count int
	}
	found := map[string]*foundAgg{}
	var sigs []string
	for _, o := range outs {
		runs += o.Runs
		stoppedEarly = stoppedEarly || o.StoppedEarly
		enumRuns += o.EnumRuns
		enumBases += o.EnumBases
		if o.EnumTotal >= 0 {
			enumTotal = o.EnumTotal
		} else {
			partitioned = true
		}
		randomRuns += o.RandomRuns
		steps += o.Steps
		vns += o.VirtualNs
		leaks += o.Leaks
		selMulti += o.SelMulti
		selNon += o.SelNonSrc
		multiTask += o.MultiTask
		decisions += o.Decisions
		fairDef += o.FairDef
		maxAfter = max(maxAfter, o.MaxAfter)
		maxSteps = max(maxSteps, o.MaxSteps)
		workerWall = max(workerWall, o.WallS)
		for k, v := range o.Faults {
			faults[k] += v
		}
		for k, v := range o.Probes {
			if strings.HasPrefix(k, "max_") {
				probes[k] = max(probes[k], v)
			} else {
				probes[k] += v
			}
		}
		for k, v := range o.Cover {
			cover[k] += v
		}
		for k, v := range o.Policies {
			policies[k] += v
		}
		for _, h := range o.Schedules {
			sched[h] = struct{}{}
		}
		for _, h := range o.NonTrivial {
			nont[h] = struct{}{}
		}
		for _, h := range o.States {
			states[h] = struct{}{}
		}
		if len(samples) < 3 && len(o.Samples) > 0 {
			samples = append(samples, o.Samples[0])
		}
		for _, f := range o.Found {
			sig := f.Signature()
			if fa := found[sig]; fa != nil {
				fa.count += f.Count
				if f.MinSteps > 0 && (fa.f.MinSteps == 0 || f.MinSteps < fa.f.MinSteps) && f.Replay != "" {
					fa.f = f
				}
			} else {
				found[sig] = &foundAgg{f: f, count: f.Count}
				sigs = append(sigs, sig)
			}
		}
	}
	sort.Strings(sigs)
	if partitioned {
		enumTotal = enumBases // the workers partition the enumeration among themselves
	}

	known := loadKnown()
	knownBySig := map[string]knownFinding{}
	for _, k := range known.Findings {
		knownBySig[k.Signature] = k
	}
	violations := 0
	var knownMatched []string
	exit := 0
	for _, sig := range sigs {
		fa := found[sig]
		f := fa.f
		if k, ok := knownBySig[sig]; ok {
			fmt.Printf("KNOWN-FINDING: property=%s %s (%d runs; %s)\n", prop, k.What, fa.count, sig)
			knownMatched = append(knownMatched, sig)
			continue
		}
		if rawMode {
			fmt.Printf("cross-check disagreement (uninstrumented library, Go scheduler): %s %s [%s] x%d: %s\n  %s\n", f.Clause, f.Stage, f.Class, fa.count, f.Msg, f.Replay)
			exit = 3
			continue
		}
		// confirm by replaying the minimised file in a fresh process
		if f.Replay == "" {
			st.cleanup()
			die(2, "INFRA: violation %s without replay file", sig)
		}
		dst := filepath.Join(verif, "replays", filepath.Base(f.Replay))
		os.MkdirAll(filepath.Join(verif, "replays"), 0o755)
		b, _ := os.ReadFile(f.Replay)
		os.WriteFile(dst, b, 0o644)
		if rc := doReplay(st, prop, dst, false); rc != 1 {
			st.cleanup()
			why := "simulator nondeterminism"
			if f.Unstable {
				why = "it had not re-executed identically inside its worker process either: the library keeps state across runs of one process, or the simulator is nondeterministic"
			}
			die(2, "INFRA: violation %s did not reproduce from its replay file %s in a fresh process (exit %d) — %s; not a verdict", sig, dst, rc, why)
		}
		violations += fa.count
		fmt.Printf("violation: %s %s [%s] x%d: %s\n", f.Clause, f.Stage, f.Class, fa.count, f.Msg)
		fmt.Printf("VIOLATION property=%s replay=%s\n", prop, dst)
		exit = 1
	}

	if workerTrouble != "" {
		if exit != 1 {
			st.cleanup()
			die(2, "%s", workerTrouble)
		}
		fmt.Printf("note: besides the violation above (confirmed by replay in a fresh process), some worker processes died or hung — typically the same defect keeping a goroutine busy; not part of the verdict:\n%s\n", tail(workerTrouble, 12))
		writeEvidence = false
	}
	wallS := time.Since(start).Seconds()
	// site×outcome coverage
	siteHit := map[string]bool{}
	for k := range cover {
		if i := strings.Index(k, "|"); i > 0 {
			siteHit[k[:i]] = true
		}
	}
	var uncovered []string
	coveredSites := 0
	for _, s := range st.sites {
		if siteHit[s] {
			coveredSites++
		} else {
			uncovered = append(uncovered, s)
		}
	}
	runsPerHour := 0.0
	if workerWall > 0 {
		runsPerHour = float64(runs) / workerWall * 3600
	}
	var sampleAny []any
	for _, s := range samples {
		sampleAny = append(sampleAny, s)
	}
	if len(sampleAny) == 0 {
		sampleAny = append(sampleAny, "no sample recorded")
	}
	covOut := map[string]any{
		"evaluations":                runs,
		"distinct_nontrivial":        len(nont),
		"rule":                       cfg.Rule,
		"samples":                    sampleAny,
		"exhaustive":                 false,
		"enumerated_subspace":        map[string]any{"base_plans": enumTotal, "base_plans_run": enumBases, "runs_including_fault_sweeps": enumRuns, "complete": enumBases == enumTotal && !stoppedEarly},
		"random_runs":                randomRuns,
		"runs_per_hour":              int64(runsPerHour),
		"seeds":                      []uint64{seed},
		"sim_time_covered_s":         float64(vns) / 1e9,
		"scheduler_steps":            steps,
		"fault_counts_fired":         faults,
		"select_multi_ready":         selMulti,
		"select_non_source_order":    selNon,
		"decisions":                  decisions,
		"decisions_with_choice":      multiTask,
		"fair_default_decisions":     fairDef,
		"distinct_schedules":         len(sched),
		"distinct_counts_note":       "exact up to 250000 per worker process; beyond that the distinct counts are lower bounds (probe distinct_schedule_count_capped)",
		"distinct_abstract_states":   len(states),
		"gomaxprocs_of_workers":      "worker w runs with GOMAXPROCS = [default, 1, 2, 4][w mod 4] (the simulation itself is independent of it; library code that reads it is not)",
		"policies":                   policies,
		"probes":                     probes,
		"max_steps_after_last_fault": maxAfter,
		"max_steps_in_a_run":         maxSteps,
		"cleanup_deadlocks":          leaks,
		"tree_fingerprint":           st.fingerprint,
		"known_findings_matched":     knownMatched,
		"worker_build_s":             st.buildS,
	}
	if cfg.Engine == "pipesim" {
		covOut["site_outcome_coverage"] = map[string]any{"sites_total": len(st.sites), "sites_covered": coveredSites, "uncovered": uncovered, "site_outcomes_hit": len(cover)}
		covOut["components_real"] = []string{"pipe (instrumented copy of the working tree)", "pipe/fork (instrumented copy)", "pipe/queue.go", "pure/monoid, pure/semigroup (copied verbatim)", "context", "Go channels and the runtime's blocking select/send/receive", "sync.WaitGroup", "runtime timers on the synctest fake clock"}
		covOut["components_stub"] = []string{"goroutine scheduling (seeded driver)", "arbitration among ready select arms (tape)", "sync.Pool (deterministic free list)", "producers, consumers, canceller (harness tasks)", "user functions and monoids (harness)", "slog sink (discarded)"}
		covOut["instrumented"] = st.instrCounts
	}
	ev := map[string]any{
		"property_id": prop,
		"tier":        tier,
		"seed":        seed,
		"level":       cfg.Level,
		"coverage":    covOut,
		"assumptions": cfg.Assumptions,
		"wall_s":      wallS,
		"violations":  violations,
	}
	if cfg.Assumptions == nil && cfg.Engine == "pipesim" {
		ev["assumptions"] = pipesimAssume
	}
	if writeEvidence {
		b, _ := json.MarshalIndent(ev, "", " ")
		os.MkdirAll(filepath.Join(verif, "evidence"), 0o755)
		if err := os.WriteFile(filepath.Join(verif, "evidence", prop+".json"), b, 0o644); err != nil {
			die(2, "INFRA: evidence: %v", err)
		}
	}
	fmt.Printf("%s %s: %d runs (%d enumerated incl. sweeps over %d/%d base plans, %d random), %d steps, %.1fs virtual, %d distinct schedules, %d non-trivial, faults=%v, wall %.1fs\n",
		prop, tier, runs, enumRuns, enumBases, enumTotal, randomRuns, steps, float64(vns)/1e9, len(sched), len(nont), faults, wallS)
	if stoppedEarly {
		fmt.Println("note: workers stopped early after enough violating runs; the counts above cover the runs executed until then")
	}
	if exit == 0 {
		fmt.Printf("OK property=%s held on everything explored\n", prop)
	}
	return exit
}

// ----------------------------------------------------------------- selftest

// selftest determinism <prop> [runs] [processes]: executes the same run
// indices in many separate processes spread over GOMAXPROCS 1/4/16 and
// compares the per-run hashes (schedule, steps, virtual time, verdict, faults).
func selftest(args []string) {
	if len(args) < 2 || args[0] != "determinism" {
		die(2, "usage: check selftest determinism <property> [runs] [processes]")
	}
	prop := args[1]
	cfg, ok := props[prop]
	if !ok || cfg.Engine != "pipesim" {
		die(2, "determinism self-test applies to pipesim properties")
	}
	runs, procs := 64, 30
	if len(args) > 2 {
		runs, _ = strconv.Atoi(args[2])
	}
	if len(args) > 3 {
		procs, _ = strconv.Atoi(args[3])
	}
	st := stage(cfg.Engine, false)
	defer st.cleanup()
	type res struct {
		hashes []uint64
		gmp    string
	}
	results := make([]res, procs)
	var wg sync.WaitGroup
	sem := make(chan struct{}, 8)
	for i := 0; i < procs; i++ {
		wg.Add(1)
		go func(i int) {
			defer wg.Done()
			sem <- struct{}{}
			defer func() { <-sem }()
			gmp := []string{"1", "4", "16"}[i%3]
			job := driver.WorkerIn{Prop: prop, Mode: "hashes", Seed: 7, Random: runs, Out: filepath.Join(st.dir, fmt.Sprintf("h-%d.json", i)), ReplayDir: filepath.Join(st.dir, "replays")}
			b, _ := json.Marshal(job)
			cmd := exec.Command(st.worker, "-test.run", "^TestWorker$", "-test.timeout", "0")
			cmd.Env = append(os.Environ(), "VERIF_JOB="+string(b), "GOMAXPROCS="+gmp)
			if outp, err := cmd.CombinedOutput(); err != nil {
				fmt.Fprintf(os.Stderr, "process %d failed: %v\n%s\n", i, err, tail(string(outp), 20))
				return
			}
			var wo driver.WorkerOut
			rb, _ := os.ReadFile(job.Out)
			json.Unmarshal(rb, &wo)
			results[i] = res{hashes: wo.RunHashes, gmp: gmp}
		}(i)
	}
	wg.Wait()
	bad := 0
	for i := 1; i < procs; i++ {
		if len(results[i].hashes) != runs || len(results[0].hashes) != runs {
			fmt.Printf("process %d: %d hashes (expected %d)\n", i, len(results[i].hashes), runs)
			bad++
			continue
		}
		for k := range results[0].hashes {
			if results[i].hashes[k] != results[0].hashes[k] {
				fmt.Printf("MISMATCH run %d: process 0 (GOMAXPROCS=%s) %x vs process %d (GOMAXPROCS=%s) %x\n", k, results[0].gmp, results[0].hashes[k], i, results[i].gmp, results[i].hashes[k])
				bad++
				break
			}
		}
	}
	if bad > 0 {
		st.cleanup()
		die(2, "determinism self-test FAILED for %s: %d of %d processes disagree", prop, bad, procs)
	}
	fmt.Printf("determinism self-test %s: %d runs x %d processes (GOMAXPROCS 1/4/16) identical\n", prop, runs, procs)
}

// mergeCover unions the workers' coverage profiles and lists the library
// blocks that no run executed, with their (instrumented) source text.
func mergeCover(st *staged) {
	files, _ := filepath.Glob(filepath.Join(st.dir, "*.cov"))
	count := map[string]int{}
	stmts := map[string]int{}
	for _, f := range files {
		b, err := os.ReadFile(f)
		if err != nil {
			continue
		}
		for _, ln := range strings.Split(string(b), "\n") {
			fs := strings.Fields(ln)
			if len(fs) != 3 || strings.HasPrefix(ln, "mode:") {
				continue
			}
			n, _ := strconv.Atoi(fs[1])
			c, _ := strconv.Atoi(fs[2])
			stmts[fs[0]] = n
			count[fs[0]] += c
		}
	}
	keys := make([]string, 0, len(count))
	for k := range count {
		keys = append(keys, k)
	}
	sort.Strings(keys)
	var sb strings.Builder
	tot, cov := 0, 0
	srcCache := map[string][]string{}
	for _, k := range keys {
		tot += stmts[k]
		if count[k] > 0 {
			cov += stmts[k]
			continue
		}
		// k = importpath/file.go:L.C,L.C
		i := strings.LastIndex(k, ":")
		file, rng := k[:i], k[i+1:]
		var l0, c0, l1, c1 int
		fmt.Sscanf(rng, "%d.%d,%d.%d", &l0, &c0, &l1, &c1)
		local := ""
		switch {
		case strings.HasPrefix(file, pipePath+"/"):
			local = filepath.Join(st.dir, "pipe", strings.TrimPrefix(file, pipePath+"/"))
		case strings.HasPrefix(file, "github.com/fogfish/golem/duct/"):
			local = filepath.Join(st.dir, "duct", strings.TrimPrefix(file, "github.com/fogfish/golem/duct/"))
		case strings.HasPrefix(file, "github.com/fogfish/golem/maplike/"):
			local = filepath.Join(st.dir, "maplike", strings.TrimPrefix(file, "github.com/fogfish/golem/maplike/"))
		}
		lines, ok := srcCache[local]
		if !ok {
			b, _ := os.ReadFile(local)
			lines = strings.Split(string(b), "\n")
			srcCache[local] = lines
		}
		fmt.Fprintf(&sb, "UNCOVERED %s (%d stmts)\n", k, stmts[k])
		for l := l0; l <= l1 && l <= len(lines) && l < l0+6; l++ {
			fmt.Fprintf(&sb, "    %4d: %s\n", l, lines[l-1])
		}
	}
	fmt.Fprintf(&sb, "TOTAL statements %d covered %d (%.1f%%)\n", tot, cov, 100*float64(cov)/float64(max(tot, 1)))
	os.WriteFile(coverOut, []byte(sb.String()), 0o644)
	var raw strings.Builder
	for _, k := range keys {
		fmt.Fprintf(&raw, "%s %d %d\n", k, stmts[k], count[k])
	}
	os.WriteFile(coverOut+".raw", []byte(raw.String()), 0o644)
	fmt.Printf("coverage: %d of %d library statements executed by simulated runs; details in %s\n", cov, tot, coverOut)
}
