// Package simrt is the runtime half of the deterministic simulator.
//
// Instrumented library code (see ../instrument) and the harness' environment
// tasks perform every synchronisation operation through this package.  Exactly
// one task runs at a time: a task parks on its private gate in front of every
// operation and is released by the driver (../driver), which draws the choice
// from the run's tape.  Operations that cannot complete fall into the real
// blocking Go operation, so that the bubble (testing/synctest) sees the
// goroutine as durably blocked; when the counterpart action of another task
// wakes it, the first thing it does is to park again.
//
// Invariant relied upon everywhere: between a release and the next park only
// the released task (Sched.cur) executes code that reads or writes simulator
// state; goroutines woken out of a blocking operation do nothing but park.
package simrt

import (
	"context"
	"fmt"
	"iter"
	"reflect"
	"runtime"
	"runtime/debug"
	"strings"
	"sync"
	"sync/atomic"
	"time"
)

// TaskState of a simulated goroutine.
type TaskState uint8

const (
	Parked  TaskState = iota + 1 // waiting on its gate: runnable
	Running                      // released, executing
	Blocked                      // inside a real blocking operation
	Exited
)

func (s TaskState) String() string {
	switch s {
	case Parked:
		return "parked"
	case Running:
		return "running"
	case Blocked:
		return "blocked"
	case Exited:
		return "exited"
	}
	return "?"
}

// Task is one goroutine under the scheduler.
type Task struct {
	ID         int
	Name       string
	Lib        bool // spawned by instrumented library code
	State      TaskState
	Site       string // where it is parked or blocked
	Panic      any
	PanicStack string
	Steps      int
	ExitSeq    int // driver step at which it exited
	ExitVT     time.Duration
	sleeping   bool // inside simrt.Sleep
	Group      int  // instance the task belongs to (twin runs): inherited from the spawning task
	gate       chan struct{}
}

// ChoiceKind labels a decision drawn from the tape.
type ChoiceKind uint8

const (
	ChTask ChoiceKind = iota
	ChSelect
	ChPreempt
	ChPool
	ChEnv // environment-level decisions made while the run proceeds
)

// EvKind labels a history event.
type EvKind uint8

const (
	EvStep  EvKind = iota // driver released Task at Site
	EvBlock               // Task fell into a real blocking op at Site
	EvSel                 // select at Site took arm Arg (−1 default); Note = ready-set info
	EvSpawn               // Task spawned child Arg
	EvExit
	EvPanic
	EvNote // harness annotation
)

var evNames = [...]string{"step", "block", "sel", "spawn", "exit", "panic", "note"}

func (k EvKind) String() string { return evNames[k] }

// Event is one entry of the recorded history. Seq is the driver's global step
// counter, VT the bubble's virtual time.
type Event struct {
	Seq  int
	VT   time.Duration
	Task int
	Kind EvKind
	Site string
	Arg  int
	Note string
}

func (e Event) String() string {
	s := fmt.Sprintf("#%d t=%v T%d %s %s", e.Seq, e.VT, e.Task, e.Kind, e.Site)
	if e.Kind == EvSel || e.Kind == EvSpawn {
		s += fmt.Sprintf(" %d", e.Arg)
	}
	if e.Note != "" {
		s += " " + e.Note
	}
	return s
}

// Sched is the per-run scheduler state.
type Sched struct {
	mu    sync.Mutex
	Tasks []*Task
	cur   *Task
	wake  chan struct{}
	free  atomic.Bool

	// Choose returns a value in [0,n). Set by the driver. key identifies the
	// site for the fair default.
	Choose func(kind ChoiceKind, n int, key string) int

	T0        time.Time
	Seq       int
	Events    []Event
	MaxEvents int
	Hash      uint64 // running hash of (task, site) releases and select outcomes

	SpawnGroup int // group given to tasks spawned from outside any task (set-up phase)
	freeOps    atomic.Int64
	PreemptN   int  // 0: statement-level preemption off; n: park with probability 1/n
	PoolEvict  bool // pool eviction fault enabled

	// statistics
	Cover          map[string]int // site|outcome -> hits
	SelMultiReady  int
	SelNonSource   int
	Preempts       int
	PoolEvictions  int
	PoolReuses     int
	watched        map[uintptr]*atomic.Bool
	closedByClose  map[uintptr]bool
	LibSpawnSites  map[string]int
	stateHashes    map[uint64]struct{}
	DistinctStates int
}

// S is the scheduler of the run in progress (one run at a time per process).
var S *Sched

// RawLib is set in the uninstrumented cross-check mode: library goroutines
// are then ordinary goroutines under the Go scheduler, not tasks, and may call
// harness-supplied user functions; operations invoked from a goroutine that is
// not a task must then fall through to the raw operation. Task goroutines are
// recognised by goroutine id (parsed from runtime.Stack) in that mode only.
var RawLib bool

var (
	gidMu sync.Mutex
	gids  = map[uint64]*Task{}
)

func goid() uint64 {
	var buf [64]byte
	n := runtime.Stack(buf[:], false)
	var id uint64
	for _, c := range buf[len("goroutine "):n] {
		if c < '0' || c > '9' {
			break
		}
		id = id*10 + uint64(c-'0')
	}
	return id
}

// IsTask reports whether the calling goroutine runs under the scheduler. In
// the normal (instrumented) mode every goroutine that reaches simrt does.
func IsTask() bool {
	if !RawLib {
		return true
	}
	gidMu.Lock()
	defer gidMu.Unlock()
	return gids[goid()] != nil
}

// New creates a scheduler; must be called inside the bubble.
func New() *Sched {
	rawMu.Lock()
	poolEpoch++
	rawMu.Unlock()
	return &Sched{
		wake:          make(chan struct{}, 1),
		T0:            time.Now(),
		MaxEvents:     4000,
		Cover:         map[string]int{},
		watched:       map[uintptr]*atomic.Bool{},
		closedByClose: map[uintptr]bool{},
		LibSpawnSites: map[string]int{},
		stateHashes:   map[uint64]struct{}{},
		Hash:          1469598103934665603,
	}
}

func (s *Sched) mix(x uint64) {
	s.Hash ^= x
	s.Hash *= 1099511628211
}

func strHash(str string) uint64 {
	h := uint64(1469598103934665603)
	for i := 0; i < len(str); i++ {
		h ^= uint64(str[i])
		h *= 1099511628211
	}
	return h
}

// Free reports whether the run is in clean-up (free-running) mode.
func Free() bool { return S == nil || S.free.Load() }

// Cur returns the running task (nil outside the driver loop).
func (s *Sched) Cur() *Task { return s.cur }

// Now is the virtual time since the start of the run.
func (s *Sched) Now() time.Duration { return time.Since(s.T0) }

func (s *Sched) event(k EvKind, task int, site string, arg int, note string) {
	if len(s.Events) >= s.MaxEvents {
		return
	}
	s.Events = append(s.Events, Event{Seq: s.Seq, VT: time.Since(s.T0), Task: task, Kind: k, Site: site, Arg: arg, Note: note})
}

// Note appends a harness annotation to the history (called by the running task
// or by the driver only).
func (s *Sched) Note(site, note string) {
	id := -1
	if s.cur != nil {
		id = s.cur.ID
	}
	s.mu.Lock()
	s.event(EvNote, id, site, 0, note)
	s.mu.Unlock()
}

func (s *Sched) cover(key string) {
	s.mu.Lock()
	s.Cover[key]++
	s.mu.Unlock()
}

func (s *Sched) signal() {
	select {
	case s.wake <- struct{}{}:
	default:
	}
}

// freeTick counts the operations executed after the run is over (clean-up,
// free-running). Letting everything end takes a few operations per task; a
// goroutine that spins through instrumented points without ever blocking (a
// polling loop that ignores the context) would keep the bubble from ever
// becoming idle, so beyond a generous budget such goroutines are ended where
// they stand. The verdict of the run is already recorded at that point.
func (s *Sched) freeTick() {
	if s == nil || !s.free.Load() {
		return
	}
	if s.freeOps.Add(1) > 400000 {
		runtime.Goexit()
	}
}

// Wake is signalled whenever a task parks or exits.
func (s *Sched) Wake() <-chan struct{} { return s.wake }

func (s *Sched) park(t *Task, site string) {
	if s.free.Load() {
		return
	}
	s.mu.Lock()
	t.State = Parked
	t.Site = site
	s.mu.Unlock()
	s.signal()
	<-t.gate
}

// enter parks the running task in front of an operation. It returns nil when
// the caller is not under the scheduler (set-up phase, clean-up phase).
func enter(site string) (*Sched, *Task) {
	s := S
	if s == nil || s.free.Load() {
		s.freeTick()
		return s, nil
	}
	if RawLib && !IsTask() {
		return s, nil
	}
	t := s.cur
	if t == nil {
		return s, nil
	}
	s.park(t, site)
	if s.free.Load() {
		return s, nil
	}
	return s, t
}

func (s *Sched) block(t *Task, site string) {
	s.mu.Lock()
	t.State = Blocked
	t.Site = site
	s.event(EvBlock, t.ID, site, 0, "")
	s.Cover[site+"|block"]++
	s.mu.Unlock()
}

// blocking runs the real blocking operation op for task t. If op panics (send
// on a channel closed by another task) the task first parks, so that the
// unwinding — which may run instrumented deferred calls — happens as the
// released task.
func (s *Sched) blocking(t *Task, site string, op func()) {
	s.block(t, site)
	func() {
		defer func() {
			if r := recover(); r != nil {
				s.park(t, site+"/woke")
				panic(r)
			}
		}()
		op()
	}()
	s.park(t, site+"/woke")
}

// Yield is an explicit scheduling point (used by harness code and user
// functions).
func Yield(site string) { enter(site) }

// Preempt is the optional statement-level scheduling point.
func Preempt(site string) {
	s := S
	if s == nil || s.PreemptN == 0 || s.free.Load() || s.cur == nil || RawLib {
		s.freeTick()
		return
	}
	if s.Choose(ChPreempt, s.PreemptN, site) == 1 {
		s.Preempts++
		s.park(s.cur, site)
	}
}

// Gosched replaces runtime.Gosched.
func Gosched(site string) { enter(site) }

func spawn(name string, lib bool, f func()) {
	s := S
	if s == nil || s.free.Load() {
		go f()
		return
	}
	s.mu.Lock()
	t := &Task{ID: len(s.Tasks), Name: name, Lib: lib, gate: make(chan struct{}), State: Parked, Site: name + "/start", Group: s.SpawnGroup}
	s.Tasks = append(s.Tasks, t)
	parent := -1
	if s.cur != nil {
		parent = s.cur.ID
		t.Group = s.cur.Group
	}
	s.event(EvSpawn, parent, name, t.ID, "")
	if lib {
		s.LibSpawnSites[name]++
	}
	s.mu.Unlock()
	go func() {
		defer func() {
			if r := recover(); r != nil {
				s.mu.Lock()
				t.Panic = r
				t.PanicStack = trimStack(string(debug.Stack()))
				if !s.free.Load() {
					s.event(EvPanic, t.ID, t.Site, 0, fmt.Sprint(r))
				}
				s.mu.Unlock()
			}
			s.mu.Lock()
			t.State = Exited
			t.ExitSeq = s.Seq
			t.ExitVT = time.Since(s.T0)
			if !s.free.Load() {
				s.event(EvExit, t.ID, t.Name, 0, "")
			}
			s.mu.Unlock()
			s.signal()
		}()
		if RawLib {
			id := goid()
			gidMu.Lock()
			gids[id] = t
			gidMu.Unlock()
			defer func() {
				gidMu.Lock()
				delete(gids, id)
				gidMu.Unlock()
			}()
		}
		<-t.gate
		f()
	}()
}

func trimStack(st string) string {
	lines := strings.Split(st, "\n")
	var keep []string
	for _, l := range lines {
		if strings.Contains(l, "/simrt/") || strings.Contains(l, "runtime/") || strings.HasPrefix(l, "goroutine ") {
			continue
		}
		keep = append(keep, strings.TrimSpace(l))
		if len(keep) >= 12 {
			break
		}
	}
	return strings.Join(keep, " | ")
}

// Go replaces the go statement in instrumented code.
func Go(site string, f func()) { spawn(site, true, f) }

// GoEnv starts an environment (harness) task.
func GoEnv(name string, f func()) { spawn(name, false, f) }

// ---------------------------------------------------------------- channels

// Send replaces `c <- v`.
func Send[T any](site string, c chan<- T, v T) {
	s, t := enter(site)
	if t == nil {
		c <- v
		return
	}
	select {
	case c <- v:
		s.cover(site + "|ready")
		return
	default:
	}
	s.blocking(t, site, func() { c <- v })
}

// Recv2 replaces `v, ok := <-c`.
func Recv2[T any](site string, c <-chan T) (v T, ok bool) {
	s, t := enter(site)
	if t == nil {
		v, ok = <-c
		return
	}
	select {
	case v, ok = <-c:
		if ok {
			s.cover(site + "|ready")
		} else {
			s.cover(site + "|closed")
		}
		return
	default:
	}
	s.blocking(t, site, func() { v, ok = <-c })
	if !ok {
		s.cover(site + "|closed")
	}
	return
}

// Recv replaces `<-c`.
func Recv[T any](site string, c <-chan T) T { v, _ := Recv2(site, c); return v }

// Range replaces ranging over a channel.
func Range[T any](site string, c <-chan T) iter.Seq[T] {
	return func(yield func(T) bool) {
		for {
			v, ok := Recv2(site, c)
			if !ok {
				return
			}
			if !yield(v) {
				return
			}
		}
	}
}

// Close replaces close(c).
func Close[T any](site string, c chan<- T) {
	s, t := enter(site)
	if t != nil {
		s.mu.Lock()
		s.Cover[site+"|close"]++
		s.closedByClose[reflect.ValueOf(c).Pointer()] = true
		s.mu.Unlock()
	}
	close(c)
}

// Sleep replaces time.Sleep.
func Sleep(site string, d time.Duration) {
	s := S
	if s == nil || s.free.Load() || s.cur == nil || (RawLib && !IsTask()) {
		s.freeTick()
		time.Sleep(d)
		return
	}
	t := s.cur
	if d <= 0 {
		s.park(t, site)
		return
	}
	s.block(t, site)
	s.mu.Lock()
	t.sleeping = true
	s.mu.Unlock()
	time.Sleep(d)
	s.mu.Lock()
	t.sleeping = false
	s.mu.Unlock()
	s.park(t, site+"/woke")
}

// runAsTask runs f as a library task on the calling (foreign) goroutine's
// behalf: used for callbacks that the runtime or the standard library starts
// on goroutines of their own (timers, context.AfterFunc).
func runAsTask(site string, f func()) {
	s := S
	if s == nil || s.free.Load() {
		f()
		return
	}
	done := make(chan struct{})
	s.mu.Lock()
	t := &Task{ID: len(s.Tasks), Name: site, Lib: true, gate: make(chan struct{}), State: Parked, Site: site + "/start"}
	s.Tasks = append(s.Tasks, t)
	s.event(EvSpawn, -1, site, t.ID, "callback")
	s.mu.Unlock()
	go func() {
		defer close(done)
		defer func() {
			if r := recover(); r != nil {
				s.mu.Lock()
				t.Panic = r
				t.PanicStack = trimStack(string(debug.Stack()))
				s.mu.Unlock()
			}
			s.mu.Lock()
			t.State = Exited
			t.ExitSeq = s.Seq
			t.ExitVT = time.Since(s.T0)
			s.mu.Unlock()
			s.signal()
		}()
		<-t.gate
		f()
	}()
	s.signal()
	<-done
}

// AfterFunc replaces time.AfterFunc: the callback runs as a library task.
func AfterFunc(site string, d time.Duration, f func()) *time.Timer {
	return time.AfterFunc(d, func() { runAsTask(site, f) })
}

// CtxAfterFunc replaces context.AfterFunc: the callback runs as a library task.
func CtxAfterFunc(site string, ctx context.Context, f func()) (stop func() bool) {
	return context.AfterFunc(ctx, func() { runAsTask(site, f) })
}

// ------------------------------------------------------------------ select

// Case is one communication clause of a select statement.
type Case struct {
	c    reflect.Value
	v    reflect.Value
	send bool
}

// ValueFor converts v to the element type of c (assignability as in `c <- v`).
func ValueFor[T any](_ chan<- T, v T) T { return v }

// R is a receive clause.
func R[T any](c <-chan T) Case { return Case{c: reflect.ValueOf(c)} }

// Snd is a send clause.
func Snd[T any](c chan<- T, v T) Case {
	return Case{c: reflect.ValueOf(c), v: reflect.ValueOf(&v).Elem(), send: true}
}

// Sel is the outcome of a select.
type Sel struct {
	I  int // index of the clause taken among the communication clauses; −1 = default
	V  reflect.Value
	OK bool
}

// Val extracts the received value.
func Val[T any](_ <-chan T, s Sel) T {
	var z T
	if !s.V.IsValid() {
		return z
	}
	reflect.ValueOf(&z).Elem().Set(s.V)
	return z
}

// Watch registers a channel whose closed-ness is known through flag (used for
// the ready-set statistics of select: a context's Done channel).
func (s *Sched) Watch(ch any, flag *atomic.Bool) {
	s.watched[reflect.ValueOf(ch).Pointer()] = flag
}

func (s *Sched) maybeReady(cs Case) bool {
	if !cs.c.IsValid() || cs.c.IsNil() {
		return false
	}
	if f, ok := s.watched[cs.c.Pointer()]; ok {
		return f.Load()
	}
	if s.closedByClose[cs.c.Pointer()] {
		return true
	}
	if cs.send {
		return cs.c.Len() < cs.c.Cap()
	}
	return cs.c.Len() > 0
}

var perms = map[int][][]int{}

func init() {
	for n := 1; n <= 4; n++ {
		var out [][]int
		var rec func(cur []int, used int)
		rec = func(cur []int, used int) {
			if len(cur) == n {
				out = append(out, append([]int(nil), cur...))
				return
			}
			for i := 0; i < n; i++ {
				if used&(1<<i) == 0 {
					rec(append(cur, i), used|1<<i)
				}
			}
		}
		rec(nil, 0)
		perms[n] = out
	}
}

// Select replaces the select statement. Ready clauses are polled without
// blocking in an order chosen by the tape; if none is ready and there is no
// default clause the real blocking select runs, where the first counterpart
// action — performed by one released task at a time — decides.
func Select(site string, hasDefault bool, cases ...Case) Sel {
	s, t := enter(site)
	n := len(cases)
	if t == nil {
		return rawSelect(hasDefault, cases)
	}
	var order []int
	if n >= 1 && n <= 4 {
		ps := perms[n]
		order = ps[s.Choose(ChSelect, len(ps), site)]
	} else if n > 4 {
		st := s.Choose(ChSelect, n, site)
		order = make([]int, n)
		for k := range order {
			order[k] = (st + k) % n
		}
	}
	// statistics: which clauses look ready before polling
	ready := 0
	first := -1
	for i, cs := range cases {
		if s.maybeReady(cs) {
			ready++
			if first < 0 {
				first = i
			}
		}
	}
	for _, i := range order {
		cs := cases[i]
		if !cs.c.IsValid() || cs.c.IsNil() {
			continue
		}
		if cs.send {
			if cs.c.TrySend(cs.v) {
				s.selTaken(t, site, i, ready, first)
				return Sel{I: i}
			}
		} else if v, ok := cs.c.TryRecv(); ok || v.IsValid() {
			s.selTaken(t, site, i, ready, first)
			return Sel{I: i, V: v, OK: ok}
		}
	}
	if hasDefault {
		s.selTaken(t, site, -1, 0, -1)
		return Sel{I: -1}
	}
	sc := make([]reflect.SelectCase, n)
	for i, cs := range cases {
		if cs.send {
			sc[i] = reflect.SelectCase{Dir: reflect.SelectSend, Chan: cs.c, Send: cs.v}
		} else {
			sc[i] = reflect.SelectCase{Dir: reflect.SelectRecv, Chan: cs.c}
		}
	}
	var (
		i  int
		v  reflect.Value
		ok bool
	)
	s.blocking(t, site, func() { i, v, ok = reflect.Select(sc) })
	s.mu.Lock()
	s.event(EvSel, t.ID, site, i, "woke")
	s.Cover[fmt.Sprintf("%s|arm%d", site, i)]++
	s.mix(strHash(site) + uint64(i+2)*7919)
	s.mu.Unlock()
	return Sel{I: i, V: v, OK: ok}
}

func (s *Sched) selTaken(t *Task, site string, i, ready, first int) {
	s.mu.Lock()
	note := ""
	if ready >= 2 {
		s.SelMultiReady++
		note = fmt.Sprintf("ready=%d", ready)
		if i != first {
			s.SelNonSource++
		}
	}
	s.event(EvSel, t.ID, site, i, note)
	if i < 0 {
		s.Cover[site+"|default"]++
	} else {
		s.Cover[fmt.Sprintf("%s|arm%d", site, i)]++
	}
	s.mix(strHash(site) + uint64(i+2)*7919)
	s.mu.Unlock()
}

func rawSelect(hasDefault bool, cases []Case) Sel {
	sc := make([]reflect.SelectCase, 0, len(cases)+1)
	for _, cs := range cases {
		if cs.send {
			sc = append(sc, reflect.SelectCase{Dir: reflect.SelectSend, Chan: cs.c, Send: cs.v})
		} else {
			sc = append(sc, reflect.SelectCase{Dir: reflect.SelectRecv, Chan: cs.c})
		}
	}
	if hasDefault {
		sc = append(sc, reflect.SelectCase{Dir: reflect.SelectDefault})
	}
	i, v, ok := reflect.Select(sc)
	if hasDefault && i == len(cases) {
		return Sel{I: -1}
	}
	return Sel{I: i, V: v, OK: ok}
}

// ReflectSelect replaces reflect.Select in instrumented code: same protocol as
// Select (park, poll ready cases in a tape-chosen order, else block for real).
func ReflectSelect(site string, cases []reflect.SelectCase) (chosen int, recv reflect.Value, recvOK bool) {
	s, t := enter(site)
	if t == nil {
		return reflect.Select(cases)
	}
	n := len(cases)
	def := -1
	for i, c := range cases {
		if c.Dir == reflect.SelectDefault {
			def = i
		}
	}
	start := 0
	if n > 1 {
		start = s.Choose(ChSelect, n, site)
	}
	for k := 0; k < n; k++ {
		i := (start + k) % n
		c := cases[i]
		if c.Dir == reflect.SelectDefault || !c.Chan.IsValid() || c.Chan.IsNil() {
			continue
		}
		if c.Dir == reflect.SelectSend {
			if c.Chan.TrySend(c.Send) {
				s.selTaken(t, site, i, 0, -1)
				return i, reflect.Value{}, false
			}
		} else if v, ok := c.Chan.TryRecv(); ok || v.IsValid() {
			s.selTaken(t, site, i, 0, -1)
			return i, v, ok
		}
	}
	if def >= 0 {
		s.selTaken(t, site, -1, 0, -1)
		return def, reflect.Value{}, false
	}
	s.blocking(t, site, func() { chosen, recv, recvOK = reflect.Select(cases) })
	s.mu.Lock()
	s.event(EvSel, t.ID, site, chosen, "woke")
	s.mix(strHash(site) + uint64(chosen+2)*7919)
	s.mu.Unlock()
	return
}

// RSend, RRecv, RTrySend, RTryRecv and RClose replace the channel methods of
// reflect.Value.
func RSend(site string, c, v reflect.Value) {
	s, t := enter(site)
	if t == nil {
		c.Send(v)
		return
	}
	if c.TrySend(v) {
		return
	}
	s.blocking(t, site, func() { c.Send(v) })
}

func RRecv(site string, c reflect.Value) (v reflect.Value, ok bool) {
	s, t := enter(site)
	if t == nil {
		return c.Recv()
	}
	if x, ok := c.TryRecv(); ok || x.IsValid() {
		return x, ok
	}
	s.blocking(t, site, func() { v, ok = c.Recv() })
	return
}

func RTrySend(site string, c, v reflect.Value) bool { enter(site); return c.TrySend(v) }

func RTryRecv(site string, c reflect.Value) (reflect.Value, bool) { enter(site); return c.TryRecv() }

func RClose(site string, c reflect.Value) { enter(site); c.Close() }

// --------------------------------------------------------- driver interface

// Runnable lists parked tasks in id order.
func (s *Sched) Runnable(buf []*Task) []*Task {
	s.mu.Lock()
	defer s.mu.Unlock()
	buf = buf[:0]
	for _, t := range s.Tasks {
		if t.State == Parked {
			buf = append(buf, t)
		}
	}
	return buf
}

// Live counts tasks that have not exited.
func (s *Sched) Live() (live, lib int) {
	s.mu.Lock()
	defer s.mu.Unlock()
	for _, t := range s.Tasks {
		if t.State != Exited {
			live++
			if t.Lib {
				lib++
			}
		}
	}
	return
}

// EnvAsleep reports whether an environment task is inside a virtual sleep (it
// will wake up by itself).
func (s *Sched) EnvAsleep() bool {
	s.mu.Lock()
	defer s.mu.Unlock()
	for _, t := range s.Tasks {
		if t.State == Blocked && t.sleeping && (!t.Lib || !strings.Contains(t.Site, ".go:")) {
			// an environment task, or a library task inside harness code (a
			// stalling user function), is asleep
			return true
		}
	}
	return false
}

// Release lets task t run until its next park, block or exit.
func (s *Sched) Release(t *Task) {
	s.mu.Lock()
	s.Seq++
	t.State = Running
	t.Steps++
	s.cur = t
	s.event(EvStep, t.ID, t.Site, 0, "")
	s.mix(uint64(t.ID)*1000003 + strHash(t.Site))
	s.mu.Unlock()
	t.gate <- struct{}{}
}

// Settled is called by the driver after synctest.Wait: nobody is running.
func (s *Sched) Settled() {
	s.cur = nil
	// abstract state: per task (state, site)
	h := uint64(14695981039346656037)
	for _, t := range s.Tasks {
		h ^= uint64(t.State) + strHash(t.Site)*31 + uint64(t.ID)
		h *= 1099511628211
	}
	if _, ok := s.stateHashes[h]; !ok {
		s.stateHashes[h] = struct{}{}
	}
	for {
		select {
		case <-s.wake:
			continue
		default:
		}
		break
	}
}

// StateHashes returns the abstract states seen (hashes).
func (s *Sched) StateHashes() map[uint64]struct{} { return s.stateHashes }

// FreeRun ends scheduling: every park becomes a no-op and all gates open.
func (s *Sched) FreeRun() {
	s.mu.Lock()
	s.free.Store(true)
	s.cur = nil
	for _, t := range s.Tasks {
		close(t.gate)
	}
	s.mu.Unlock()
}

// Snapshot describes the tasks (for verdicts and traces).
type TaskInfo struct {
	Group   int
	ExitSeq int
	ExitVT  time.Duration
	ID      int
	Name    string
	Lib     bool
	State   string
	Site    string
	Panic   string
	Stack   string `json:",omitempty"`
	Steps   int
}

func (s *Sched) Snapshot() []TaskInfo {
	s.mu.Lock()
	defer s.mu.Unlock()
	out := make([]TaskInfo, 0, len(s.Tasks))
	for _, t := range s.Tasks {
		ti := TaskInfo{Group: t.Group, ExitSeq: t.ExitSeq, ExitVT: t.ExitVT, ID: t.ID, Name: t.Name, Lib: t.Lib, State: t.State.String(), Site: t.Site, Steps: t.Steps}
		if t.Panic != nil {
			ti.Panic = fmt.Sprint(t.Panic)
			ti.Stack = t.PanicStack
		}
		out = append(out, ti)
	}
	return out
}

// -------------------------------------------------------------------- sync

// cv is a tiny broadcast primitive built on channels (durably blocking inside
// a bubble, unlike sync.Mutex).
type cv struct{ ch chan struct{} }

func (c *cv) waitCh() chan struct{} {
	if c.ch == nil {
		c.ch = make(chan struct{})
	}
	return c.ch
}

func (c *cv) broadcast() {
	if c.ch != nil {
		close(c.ch)
		c.ch = nil
	}
}

// acquire parks, then loops until try succeeds, blocking on c between attempts.
func acquire(site string, c *cv, try func() bool) {
	s, t := enter(site)
	if t == nil {
		// outside the scheduler: spin politely (set-up / clean-up only)
		for !try() {
			time.Sleep(time.Microsecond)
		}
		return
	}
	for !try() {
		ch := c.waitCh()
		s.blocking(t, site, func() { <-ch })
		if s.free.Load() {
			for !try() {
				time.Sleep(time.Microsecond)
			}
			return
		}
	}
}

var rawMu sync.Mutex // protects the small state of the wrappers below in free-run mode

// WaitGroup replaces sync.WaitGroup (the real one, with scheduling points).
type WaitGroup struct{ wg sync.WaitGroup }

func (w *WaitGroup) Add(n int) { enter("wg.Add"); w.wg.Add(n) }
func (w *WaitGroup) Done()     { enter("wg.Done"); w.wg.Done() }
func (w *WaitGroup) Wait() {
	s, t := enter("wg.Wait")
	if t == nil {
		w.wg.Wait()
		return
	}
	s.blocking(t, "wg.Wait", func() { w.wg.Wait() })
}
func (w *WaitGroup) Go(f func()) {
	w.Add(1)
	Go("wg.Go", func() {
		defer w.Done()
		f()
	})
}

// Mutex replaces sync.Mutex.
type Mutex struct {
	locked bool
	c      cv
}

func (m *Mutex) Lock() {
	acquire("mu.Lock", &m.c, func() bool {
		rawMu.Lock()
		defer rawMu.Unlock()
		if m.locked {
			return false
		}
		m.locked = true
		return true
	})
}
func (m *Mutex) TryLock() bool {
	enter("mu.TryLock")
	rawMu.Lock()
	defer rawMu.Unlock()
	if m.locked {
		return false
	}
	m.locked = true
	return true
}
func (m *Mutex) Unlock() {
	enter("mu.Unlock")
	rawMu.Lock()
	if !m.locked {
		rawMu.Unlock()
		panic("sync: unlock of unlocked mutex")
	}
	m.locked = false
	m.c.broadcast()
	rawMu.Unlock()
}

// RWMutex replaces sync.RWMutex.
type RWMutex struct {
	readers int
	writer  bool
	c       cv
}

func (m *RWMutex) Lock() {
	acquire("rw.Lock", &m.c, func() bool {
		rawMu.Lock()
		defer rawMu.Unlock()
		if m.writer || m.readers > 0 {
			return false
		}
		m.writer = true
		return true
	})
}
func (m *RWMutex) Unlock() {
	enter("rw.Unlock")
	rawMu.Lock()
	m.writer = false
	m.c.broadcast()
	rawMu.Unlock()
}
func (m *RWMutex) RLock() {
	acquire("rw.RLock", &m.c, func() bool {
		rawMu.Lock()
		defer rawMu.Unlock()
		if m.writer {
			return false
		}
		m.readers++
		return true
	})
}
func (m *RWMutex) RUnlock() {
	enter("rw.RUnlock")
	rawMu.Lock()
	m.readers--
	m.c.broadcast()
	rawMu.Unlock()
}
func (m *RWMutex) RLocker() sync.Locker { return rlocker{m} }

type rlocker struct{ m *RWMutex }

func (r rlocker) Lock()   { r.m.RLock() }
func (r rlocker) Unlock() { r.m.RUnlock() }

// Once replaces sync.Once.
type Once struct {
	state int // 0 new, 1 running, 2 done
	c     cv
}

func (o *Once) Do(f func()) {
	run := false
	acquire("once.Do", &o.c, func() bool {
		rawMu.Lock()
		defer rawMu.Unlock()
		switch o.state {
		case 0:
			o.state = 1
			run = true
			return true
		case 2:
			return true
		}
		return false
	})
	if run {
		defer func() {
			rawMu.Lock()
			o.state = 2
			o.c.broadcast()
			rawMu.Unlock()
		}()
		f()
	}
}

// Cond replaces sync.Cond.
type Cond struct {
	L       sync.Locker
	waiters []chan struct{}
}

func NewCond(l sync.Locker) *Cond { return &Cond{L: l} }

func (c *Cond) Wait() {
	s, t := enter("cond.Wait")
	ch := make(chan struct{})
	rawMu.Lock()
	c.waiters = append(c.waiters, ch)
	rawMu.Unlock()
	c.L.Unlock()
	if t == nil {
		<-ch
	} else {
		s.blocking(t, "cond.Wait", func() { <-ch })
	}
	c.L.Lock()
}
func (c *Cond) Signal() {
	enter("cond.Signal")
	rawMu.Lock()
	if len(c.waiters) > 0 {
		close(c.waiters[0])
		c.waiters = c.waiters[1:]
	}
	rawMu.Unlock()
}
func (c *Cond) Broadcast() {
	enter("cond.Broadcast")
	rawMu.Lock()
	for _, w := range c.waiters {
		close(w)
	}
	c.waiters = nil
	rawMu.Unlock()
}

// Pool replaces sync.Pool: a deterministic LIFO free list. Dropping the list
// (what a GC cycle does to a real pool) is a fault the tape may inject.
type Pool struct {
	New   func() any
	free  []any
	epoch uint64
}

// Slot holds the per-run copy of one package-level variable of the instrumented
// library (see PkgVar).
type Slot struct {
	epoch uint64
	p     any
}

// PkgVar returns the address of this run's copy of a package-level variable.
// Instrumented code reaches every package-level variable through it, so that
// library state does not survive from one simulated run into the next (where it
// would be bound to a dead bubble) and every run starts from the state a fresh
// process would have. mk builds the initial value exactly as the declaration
// does.
func PkgVar[T any](slot *Slot, mk func() *T) *T {
	rawMu.Lock()
	if slot.epoch == poolEpoch && slot.p != nil {
		p := slot.p.(*T)
		rawMu.Unlock()
		return p
	}
	rawMu.Unlock()
	v := mk() // may run instrumented code: never under the lock
	rawMu.Lock()
	if slot.epoch != poolEpoch || slot.p == nil {
		slot.p, slot.epoch = v, poolEpoch
	}
	p := slot.p.(*T)
	rawMu.Unlock()
	return p
}

// poolEpoch advances with every run: a pool (also a package-level one) starts
// every run empty, which sync.Pool permits at any time and which keeps objects
// bound to one bubble (channels, timers) from leaking into the next run.
var poolEpoch uint64

func (p *Pool) fresh() {
	if p.epoch != poolEpoch {
		p.free, p.epoch = nil, poolEpoch
	}
}

func (p *Pool) Get() any {
	s := S
	rawMu.Lock()
	p.fresh()
	n := len(p.free)
	rawMu.Unlock()
	if n > 0 {
		// the eviction decision and New may park (New is instrumented user
		// code): never under rawMu
		evict := s != nil && s.PoolEvict && !RawLib && !s.free.Load() && s.cur != nil && s.Choose(ChPool, 4, "pool") == 1
		rawMu.Lock()
		if evict {
			p.free = nil
			s.PoolEvictions++
			rawMu.Unlock()
		} else if m := len(p.free); m > 0 {
			x := p.free[m-1]
			p.free = p.free[:m-1]
			if s != nil {
				s.PoolReuses++
			}
			rawMu.Unlock()
			return x
		} else {
			rawMu.Unlock()
		}
	}
	if p.New == nil {
		return nil
	}
	return p.New()
}

func (p *Pool) Put(x any) {
	rawMu.Lock()
	p.fresh()
	p.free = append(p.free, x)
	rawMu.Unlock()
}
