package pipeprops

import (
	"context"
	"errors"
	"fmt"
	"reflect"
	"time"

	"github.com/fogfish/golem/pipe/v2"
	"github.com/fogfish/golem/pipe/v2/fork"

	"verif/sim/driver"
	"verif/sim/simrt"
)

// Typed variants: the stages are generic, the properties quantify over every
// input, so the same simulated workloads are also run with element types other
// than int — interface types carrying nil, zero-size types, pointers with nil,
// uncomparable values, strings with the empty string. The stage functions are
// identities (or fail at planned call positions), so the reference model is
// the input sequence itself.

type kit[T any] struct {
	name string
	vals []T
}

var (
	errA = errors.New("A")
	errB = errors.New("B")

	kitAny   = kit[any]{"any", []any{nil, 0, "", 1, (*box)(nil), "x", nil, 2.5, struct{}{}, []int(nil)}}
	kitErr   = kit[error]{"error", []error{errA, nil, errB, nil, nil, errA}}
	kitUnit  = kit[struct{}]{"struct{}", []struct{}{{}, {}, {}}}
	kitPtr   = kit[*box]{"*box", []*box{{v: 1}, nil, {v: 2}, nil, {v: 3}}}
	kitSlice = kit[[]int]{"[]int", [][]int{{1}, nil, {}, {2, 3}, nil}}
	kitStr   = kit[string]{"string", []string{"", "a", "", "b", "ab"}}
)

const nKits = 6

var typedStages = []string{"Map", "FMap", "Filter", "Take", "TakeWhile", "Partition", "Throttling", "Join", "SeqToSeq", "New", "fork.Map", "MapTry", "NewTwoTypes", "fork.Filter", "fork.FMap"}

// typedStagesOf lists the typed stages that belong to a property.
func typedStagesOf(prop string) []int {
	switch prop {
	case "C05":
		return []int{0, 1, 2, 3, 4, 5, 8}
	case "C07":
		return []int{11}
	case "C08":
		return []int{9, 12}
	case "C09":
		return []int{10, 13, 14}
	case "C12":
		return []int{7}
	case "C13":
		return []int{6}
	}
	return nil
}

// genTyped draws a typed plan for a property.
func genTyped(r *driver.Rand, prop string) *driver.Plan {
	st := typedStagesOf(prop)
	p := &driver.Plan{Prop: prop, Stage: "typed", CancelStep: -1, Cap: genCap(r), Par: 1 + r.Intn(3), N: 2, IntervalMs: 1}
	p.SetX("kit", r.Intn(nKits))
	p.SetX("tstage", st[r.Intn(len(st))])
	p.SetX("n", r.Intn(9))
	if r.Chance(1, 10) {
		p.SetX("n", driver.Pick(r, 33, 65, 130))
	}
	if p.X("tstage") == 11 {
		for i := 0; i < p.X("n"); i++ {
			if r.Chance(1, 3) {
				p.FailAt = append(p.FailAt, i)
			}
		}
		p.Mode = driver.Pick(r, "try", "lift")
	}
	genSched(r, p)
	genEnvPaces(r, p, 2, 3)
	return p
}

type typedState struct {
	final func(e *driver.Env)
}

func typedBuild(e *driver.Env) {
	var st *typedState
	switch e.Plan.X("kit") % nKits {
	case 0:
		st = buildTyped(e, kitAny)
	case 1:
		st = buildTyped(e, kitErr)
	case 2:
		st = buildTyped(e, kitUnit)
	case 3:
		st = buildTyped(e, kitPtr)
	case 4:
		st = buildTyped(e, kitSlice)
	default:
		st = buildTyped(e, kitStr)
	}
	e.Data = st
}

func typedFinal(e *driver.Env) {
	if st, ok := e.Data.(*typedState); ok && st != nil {
		st.final(e)
	}
}

func showT[T any](v T) string {
	rv := reflect.ValueOf(&v).Elem()
	if rv.Kind() == reflect.Interface && rv.IsNil() {
		return "<nil interface>"
	}
	switch rv.Kind() {
	case reflect.Pointer:
		if rv.IsNil() {
			return "<nil pointer>"
		}
		return fmt.Sprintf("&%v", rv.Elem().Interface())
	case reflect.Slice:
		if rv.IsNil() {
			return "<nil slice>"
		}
	}
	return fmt.Sprintf("%T(%v)", any(v), any(v))
}

func showAllT[T any](vs []T) []string {
	out := make([]string, len(vs))
	for i, v := range vs {
		out[i] = showT(v)
	}
	return out
}

func eqStrs(a, b []string) bool {
	if len(a) != len(b) {
		return false
	}
	for i := range a {
		if a[i] != b[i] {
			return false
		}
	}
	return true
}

func sameMultisetStr(a, b []string) bool {
	if len(a) != len(b) {
		return false
	}
	m := map[string]int{}
	for _, x := range a {
		m[x]++
	}
	for _, x := range b {
		m[x]--
		if m[x] < 0 {
			return false
		}
	}
	return true
}

func buildTyped[T any](e *driver.Env, k kit[T]) *typedState {
	p := e.Plan
	ctx := e.Ctx
	n := p.X("n")
	stage := typedStages[p.X("tstage")%len(typedStages)]
	items := make([]T, n)
	for i := range items {
		items[i] = k.vals[i%len(k.vals)]
	}
	clause := p.Prop + ".typed"
	calls := 0
	ident := func(x T) (T, error) {
		idx := calls
		if !simrt.Free() {
			calls++
		}
		if stage == "MapTry" {
			for _, f := range p.FailAt {
				if f == idx {
					var z T
					return z, elemErr{idx, 0}
				}
			}
		}
		return x, nil
	}
	yes := func(x T) (bool, error) { return true, nil }
	mkIn := func(name string, xs []T, pi int) (chan T, *driver.Prod) {
		ch := make(chan T, p.Cap)
		return ch, driver.Produce(e, name, ch, xs, p.Producer(pi))
	}
	var outs []*driver.Stream[T]
	var errs *driver.Stream[error]
	var prods []*driver.Prod
	consume := func(name string, ch <-chan T, ci int) {
		outs = append(outs, driver.Consume(e, name, ch, p.Consumer(ci), nil))
	}
	want := items
	multiset := false
	var toSeqRes []T
	toSeqDone := false
	var second *driver.Stream[string]
	secondWant := []string{"", "p", "q"}

	switch stage {
	case "Map":
		in, pr := mkIn("producer0", items, 0)
		prods = append(prods, pr)
		out, exx := pipe.Map(ctx, in, pipe.Lift(ident))
		consume("consumer.out", out, 0)
		errs = driver.Consume(e, "consumer.err", exx, p.Consumer(2), nil)
	case "MapTry":
		in, pr := mkIn("producer0", items, 0)
		prods = append(prods, pr)
		f := pipe.Try(ident)
		if p.Mode == "lift" {
			f = pipe.Lift(ident)
		}
		out, exx := pipe.Map(ctx, in, f)
		consume("consumer.out", out, 0)
		errs = driver.Consume(e, "consumer.err", exx, p.Consumer(2), nil)
		fails := map[int]bool{}
		first := -1
		for _, f := range p.FailAt {
			if f < n {
				fails[f] = true
				if first < 0 || f < first {
					first = f
				}
			}
		}
		want = nil
		for i, x := range items {
			if p.Mode == "lift" && first >= 0 && i >= first {
				break
			}
			if !fails[i] {
				want = append(want, x)
			}
		}
	case "FMap":
		in, pr := mkIn("producer0", items, 0)
		prods = append(prods, pr)
		out, exx := pipe.FMap(ctx, in, pipe.LiftF(func(ctx context.Context, x T, out chan<- T) error {
			simrt.Select("fn.emit", false, simrt.Snd(out, x), simrt.R(ctx.Done()))
			return nil
		}))
		consume("consumer.out", out, 0)
		errs = driver.Consume(e, "consumer.err", exx, p.Consumer(2), nil)
	case "Filter":
		in, pr := mkIn("producer0", items, 0)
		prods = append(prods, pr)
		consume("consumer.out", pipe.Filter(ctx, in, pipe.Lift(yes)), 0)
	case "Take":
		in, pr := mkIn("producer0", items, 0)
		prods = append(prods, pr)
		consume("consumer.out", pipe.Take(ctx, in, n), 0)
	case "TakeWhile":
		in, pr := mkIn("producer0", items, 0)
		prods = append(prods, pr)
		consume("consumer.out", pipe.TakeWhile(ctx, in, pipe.Lift(yes)), 0)
	case "Partition":
		in, pr := mkIn("producer0", items, 0)
		prods = append(prods, pr)
		l, r := pipe.Partition(ctx, in, pipe.Lift(yes))
		consume("consumer.out", l, 0)
		outs = append(outs, driver.Consume(e, "consumer.out2", r, p.Consumer(1), func(i int, v T) {
			e.Failf(clause, "an element took the wrong branch of Partition", "element type %s: %s arrived on the right side", k.name, showT(v))
		}))
		outs = outs[:1]
	case "Throttling":
		in, pr := mkIn("producer0", items, 0)
		prods = append(prods, pr)
		consume("consumer.out", pipe.Throttling(ctx, in, max(p.N, 1), time.Duration(max(p.IntervalMs, 1))*time.Millisecond), 0)
	case "Join":
		in0, pr0 := mkIn("producer0", items[:n/2], 0)
		in1, pr1 := mkIn("producer1", items[n/2:], 1)
		prods = append(prods, pr0, pr1)
		consume("consumer.out", pipe.Join(ctx, in0, in1), 0)
		multiset = true
	case "SeqToSeq":
		buf := append([]T(nil), items...)
		ch := pipe.Seq(buf...)
		simrt.GoEnv("toseq", func() {
			r := pipe.ToSeq(ch)
			if !simrt.Free() {
				toSeqRes, toSeqDone = r, true
			}
		})
	case "New", "NewTwoTypes":
		rcv, snd := pipe.New[T](ctx, p.Cap)
		simrt.GoEnv("sender", func() {
			for _, x := range items {
				sel := simrt.Select("sender.send", false, simrt.Snd(snd, x), simrt.R(e.Abort))
				if simrt.Free() || sel.I == 1 {
					return
				}
			}
			simrt.Yield("sender.close")
			if !simrt.Free() {
				close(snd)
			}
		})
		consume("receiver", rcv, 0)
		if stage == "NewTwoTypes" {
			// a second unbounded channel of another element type in the same process
			rcv2, snd2 := pipe.New[string](ctx, p.Cap)
			simrt.GoEnv("sender2", func() {
				for _, x := range secondWant {
					sel := simrt.Select("sender2.send", false, simrt.Snd(snd2, x), simrt.R(e.Abort))
					if simrt.Free() || sel.I == 1 {
						return
					}
				}
				simrt.Yield("sender2.close")
				if !simrt.Free() {
					close(snd2)
				}
			})
			second = driver.Consume(e, "receiver2", rcv2, driver.ConsumerPlan{Abandon: -1, StartMs: 3}, nil)
		}
	case "fork.Map":
		in, pr := mkIn("producer0", items, 0)
		prods = append(prods, pr)
		out, exx := fork.Map(ctx, max(p.Par, 1), in, fork.Lift(ident))
		consume("consumer.out", out, 0)
		errs = driver.Consume(e, "consumer.err", exx, p.Consumer(2), nil)
		multiset = true
	case "fork.Filter":
		in, pr := mkIn("producer0", items, 0)
		prods = append(prods, pr)
		consume("consumer.out", fork.Filter(ctx, max(p.Par, 1), in, fork.Lift(yes)), 0)
		multiset = true
	case "fork.FMap":
		in, pr := mkIn("producer0", items, 0)
		prods = append(prods, pr)
		out, exx := fork.FMap(ctx, max(p.Par, 1), in, fork.LiftF(func(ctx context.Context, x T, out chan<- T) error {
			simrt.Select("fn.emit", false, simrt.Snd(out, x), simrt.R(ctx.Done()))
			return nil
		}))
		consume("consumer.out", out, 0)
		errs = driver.Consume(e, "consumer.err", exx, p.Consumer(2), nil)
		multiset = true
	}

	return &typedState{final: func(e *driver.Env) {
		if ps := e.LibPanics(); len(ps) > 0 {
			e.Failf(clause, "library goroutine panicked: "+ps[0].Panic, "%s over %s: %s", stage, k.name, driver.DescribeTasks(ps))
			return
		}
		if !e.Quiescent {
			return
		}
		desc := fmt.Sprintf("%s over element type %s, input %v", stage, k.name, showAllT(items))
		if stage == "SeqToSeq" {
			if !toSeqDone || !eqStrs(showAllT(toSeqRes), showAllT(want)) {
				e.Failf(clause, "values of this element type do not travel unchanged", "%s: ToSeq(Seq(...)) = %v (done=%v)", desc, showAllT(toSeqRes), toSeqDone)
			}
			return
		}
		got := showAllT(outs[0].Values())
		ok := eqStrs(got, showAllT(want))
		if multiset {
			ok = sameMultisetStr(got, showAllT(want))
		}
		if !ok {
			e.Failf(clause, "values of this element type do not travel unchanged", "%s: delivered %v, expected %v", desc, got, showAllT(want))
			return
		}
		if stage == "MapTry" && errs != nil {
			wantErrs := 0
			seen := map[int]bool{}
			first := -1
			for _, f := range p.FailAt {
				if f < n && !seen[f] {
					seen[f] = true
					wantErrs++
					if first < 0 || f < first {
						first = f
					}
				}
			}
			if p.Mode == "lift" && wantErrs > 1 {
				wantErrs = 1
			}
			if len(errs.Got) != wantErrs {
				e.Failf(clause, "failing elements of this element type do not yield one error each", "%s mode %s fail_at=%v: %d errors, expected %d", desc, p.Mode, p.FailAt, len(errs.Got), wantErrs)
				return
			}
		}
		if !outs[0].Closed {
			e.Failf(clause, "output not closed after the input ended", "%s: tasks %s", desc, driver.DescribeTasks(e.LibTasksAlive(nil)))
			return
		}
		if second != nil {
			if !eqStrs(second.Values(), secondWant) || !second.Closed {
				e.Failf(clause, "a second unbounded channel of another element type misbehaves", "%s: second channel delivered %v (closed=%v), expected %v", desc, second.Values(), second.Closed, secondWant)
			}
		}
	}}
}
