package pipeprops

import (
	"verif/sim/driver"
)

// C12 — Join merges all inputs: nothing lost or duplicated, per-input order
// kept, closes after — and only after — every input closed (DESIGN §6.8).

func c12Plan(lens []int, capsIn []int) *driver.Plan {
	p := &driver.Plan{Prop: "C12", Stage: "Join", CancelStep: -1, Inputs: [][]int{}}
	for i, n := range lens {
		p.Inputs = append(p.Inputs, elems(i, n))
		p.InCaps = append(p.InCaps, capsIn[i%len(capsIn)])
		p.Producers = append(p.Producers, driver.ProducerPlan{})
	}
	p.Consumers = []driver.ConsumerPlan{{Abandon: -1}}
	return p
}

func c12Gen(r *driver.Rand, thorough bool) *driver.Plan {
	k := driver.Pick(r, 0, 1, 2, 2, 3, 3, r.Intn(11), r.Intn(11), 12, 17)
	lens := make([]int, k)
	for i := range lens {
		lens[i] = r.Intn(7)
		if r.Chance(1, 60) {
			lens[i] = driver.Pick(r, 65, 100, 300) // a burst longer than any internal batch
		}
		if k > 5 {
			lens[i] = r.Intn(3)
		}
		if thorough && r.Chance(1, 5) {
			lens[i] = r.Intn(31)
		}
	}
	p := c12Plan(lens, []int{genCap(r), genCap(r), genCap(r)})
	p.Producers = nil
	p.Consumers = nil
	genEnvPaces(r, p, k, 1)
	if k > 0 && r.Chance(1, 2) {
		// one input is deliberately slow: closes long after the others
		i := r.Intn(k)
		p.Producers[i].CloseMs = driver.Pick(r, 50, 200, 1000)
		if r.Chance(1, 2) {
			p.Producers[i].StartMs = driver.Pick(r, 20, 100)
		}
	}
	if k > 0 && r.Chance(1, 8) {
		p.Producers[r.Intn(k)].NoClose = true // then the output must never close
	}
	genSched(r, p)
	if r.Chance(1, 8) {
		p.SetX("uses", 2)
	}
	if k > 0 && r.Chance(1, 10) {
		p.SetX("dup_input", 1) // the first input is passed to Join twice
	}
	if p.X("uses") == 0 && r.Chance(1, 5) {
		p.SetX("late_build", 1+r.Intn(20)) // some inputs may already be closed, or full, when Join is called
	}
	if k > 0 && r.Chance(1, 400) {
		// a long backlog in a big buffer
		i := r.Intn(k)
		p.Inputs[i] = elems(i, driver.Pick(r, 1025, 3000))
		p.InCaps[i] = 4096
		p.SetX("late_build", 40)
	}
	return p
}

func c12Enum(thorough bool) []*driver.Plan {
	var out []*driver.Plan
	shapes := [][]int{{}, {0}, {1}, {3}, {0, 0}, {1, 0}, {2, 2}, {1, 3}, {1, 1, 1}, {2, 0, 1}, {1, 1, 1, 1, 1},
		{1, 1, 1, 1, 1, 1, 1, 1}, {1, 1, 1, 1, 1, 1, 1, 1, 1}, {1, 0, 1, 2, 1, 0, 1, 1, 1, 1, 1, 1, 1, 1, 1, 1, 2}}
	if thorough {
		shapes = append(shapes, []int{4, 4}, []int{3, 3, 3}, []int{5, 1, 0, 2}, []int{2, 2, 2, 2, 2})
	}
	for _, lens := range shapes {
		for _, c := range []int{0, 1, 3} {
			for _, pol := range basePolicies {
				for variant := 0; variant < 4; variant++ {
					p := c12Plan(lens, []int{c})
					p.Policy, p.Budget = pol, 4000
					switch variant {
					case 1: // the last input closes long after the others
						if len(lens) > 0 {
							p.Producers[len(lens)-1].CloseMs = 100
						}
					case 3: // the first input is passed twice
						if len(lens) == 0 {
							continue
						}
						p.SetX("dup_input", 1)
					case 2: // slow consumer
						p.Consumers[0].StartMs = 30
						p.Consumers[0].DelaysMs = []int{5}
					}
					out = append(out, p)
				}
			}
		}
	}
	return out
}

func c12BuildOne(e *driver.Env) { e.Data = BuildStage(e, "C12.a") }

func c12Build(e *driver.Env) { driver.Phased(e, c12BuildOne, c12Final) }

func c12Final(e *driver.Env) {
	s := e.Data.(*Sys)
	p := e.Plan
	s.NoPanic("C12.e")
	if e.Viol != nil {
		return
	}
	// C12.b: close observed only after every input was closed by its producer
	if s.Out.Closed {
		for i, pr := range s.Prods {
			if !pr.Closed || pr.CloseSeq >= s.Out.CloseSeq {
				e.Failf("C12.b", "Join closed its output before every input was closed",
					"output close observed at step %d; input %d closed=%v at step %d (inputs %v)", s.Out.CloseSeq, i, pr.Closed, pr.CloseSeq, p.Inputs)
				return
			}
		}
		// … and only after every element was delivered
		total := 0
		for _, in := range p.Inputs {
			total += len(in)
		}
		if len(s.Out.Got) != total {
			e.Failf("C12.a", "Join closed its output before every element of every input was delivered",
				"delivered %v of inputs %v", s.Out.Values(), p.Inputs)
			return
		}
	}
	if !e.Quiescent {
		return
	}
	if s.InputsClosed() {
		// C12.a complete, C12.c closes
		for i, in := range p.Inputs {
			var got []int
			for _, v := range s.Out.Values() {
				if v/stride == i {
					got = append(got, v)
				}
			}
			if p.X("dup_input") == 1 && i == 0 {
				if !sameMultiset(got, in) {
					e.Failf("C12.a", "Join lost or duplicated elements of an input that was passed twice",
						"input %d is %v, delivered from it %v", i, in, got)
					return
				}
				continue
			}
			if !eqInts(got, in) {
				e.Failf("C12.a", "Join lost, duplicated or reordered elements of one input",
					"input %d is %v, delivered from it %v (all delivered %v)", i, in, got, s.Out.Values())
				return
			}
		}
		if !s.Out.Closed {
			clause := "C12.c"
			if len(p.Inputs) == 0 {
				clause = "C12.d"
			}
			e.Failf(clause, "Join never closed its output although every input closed and was drained",
				"%d inputs all closed; tasks: %s", len(p.Inputs), driver.DescribeTasks(e.LibTasksAlive(nil)))
			return
		}
		if alive := e.LibTasksAlive(nil); len(alive) > 0 {
			e.Failf("C12.c", "library goroutine still alive after Join closed its output", "%s", driver.DescribeTasks(alive))
		}
		return
	}
	// Some input stays open. The output is an interleaving for any arrival
	// order: nothing is left to happen (quiescence under the fair schedule) and
	// the consumer is still waiting for more, so every element whose send on
	// any input has completed must have come out — an open, silent input must
	// not hold back the others.
	if s.Out != nil && !s.Out.Closed && !s.Out.Abandoned && !e.Cancelled.Load() && p.X("dup_input") == 0 && len(s.Prods) == len(p.Inputs) {
		for i := range p.Inputs {
			n := 0
			for _, v := range s.Out.Values() {
				if v/stride == i {
					n++
				}
			}
			if n < s.Prods[i].Sent {
				e.Failf("C12.a", "elements sent on one input are held back while another input stays open",
					"input %d: %d sends completed, %d of its elements delivered; nothing left to happen, the consumer is waiting (delivered %v; inputs %v)", i, s.Prods[i].Sent, n, s.Out.Values(), p.Inputs)
				return
			}
		}
	}
}

func init() {
	Scenarios["C12"] = &driver.Scenario{Prop: "C12", Gen: c12Gen, Enum: c12Enum, Build: c12Build, Final: c12Final}
}
