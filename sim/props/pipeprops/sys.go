// Package pipeprops holds the workloads, reference models and oracles of the
// pipesim engine (properties C05–C13). Everything here is written from the
// property texts; nothing mirrors an implementation constant.
package pipeprops

import (
	"context"
	"errors"
	"fmt"
	"math"
	"sort"
	"time"

	"github.com/fogfish/golem/pipe/v2"
	"github.com/fogfish/golem/pipe/v2/fork"
	"github.com/fogfish/golem/pure/monoid"
	"github.com/fogfish/golem/pure/semigroup"

	"verif/sim/driver"
	"verif/sim/simrt"
)

// elemErr is the error of a failing element. Its kind varies what the error
// wraps: nothing, context.Canceled or context.DeadlineExceeded (a per-element
// time-out of the user's own) — which error a function fails with must not
// matter to the stage.
type elemErr struct{ id, kind int }

func (e elemErr) Error() string { return fmt.Sprintf("err#%d", e.id) }

func (e elemErr) Unwrap() error {
	switch e.kind {
	case 1:
		return context.Canceled
	case 2:
		return context.DeadlineExceeded
	}
	return nil
}

// errSentinel is one error value shared by every failing element (kind 3).
var errSentinel = errors.New("sentinel failure")

const sentinelID = math.MinInt + 1

// multiErr is one error value that wraps several others (errors.Join style:
// Unwrap() []error); kind 4 carries two parts, kind 5 none at all. It is one
// error of one failing element, whatever it wraps.
type multiErr struct {
	id    int
	parts []error
}

func (e multiErr) Error() string   { return fmt.Sprintf("err#%d(+%d)", e.id, len(e.parts)) }
func (e multiErr) Unwrap() []error { return e.parts }

// errID identifies the failing element an error stands for. The error may
// arrive wrapped (fmt.Errorf("...: %w", err)): what the properties promise is
// "that error", not the identity of the error value.
func errID(err error) int {
	var ee elemErr
	if errors.As(err, &ee) {
		return ee.id
	}
	var me multiErr
	if errors.As(err, &me) {
		return me.id
	}
	if errors.Is(err, errSentinel) {
		return sentinelID
	}
	return math.MinInt
}

// failure builds the error of a failing element according to the plan.
func failure(p *driver.Plan, id int) error {
	if p.X("err_kind") == 3 {
		return errSentinel
	}
	switch p.X("err_kind") {
	case 4:
		return multiErr{id, []error{errors.New("first cause"), fmt.Errorf("second cause: %w", context.Canceled)}}
	case 5:
		return multiErr{id, nil}
	}
	return elemErr{id, p.X("err_kind")}
}

// ---------------------------------------------------------------- families

func mapImg(fn, x int) int {
	switch fn % 3 {
	case 0:
		return x*3 + 1
	case 1:
		return x
	}
	return -x
}

func fmapImg(fn, x int) []int {
	switch fn % 5 {
	case 0:
		return []int{x, -x}
	case 1:
		return nil
	case 2:
		return []int{x}
	case 4:
		// long images (beyond any fixed internal buffer) for two elements of
		// an input, short ones for the rest
		if k := x % stride; k == 3 || k == 4 {
			size := []int{65, 300, 130}[(k+fn/5)%3]
			out := make([]int, size)
			for i := range out {
				out[i] = x*7 + i
			}
			return out
		}
		return []int{x}
	}
	n := x % 3
	if n < 0 {
		n = -n
	}
	out := []int{}
	for i := 0; i < n; i++ {
		out = append(out, x*10+i)
	}
	return out
}

func pred(fn, arg, x int) bool {
	switch fn % 5 {
	case 0:
		return x%2 == 0
	case 1:
		return true
	case 2:
		return false
	case 3:
		return x%3 == arg%3
	}
	return x%stride < arg
}

func unfoldF(fn, x int) int {
	switch fn % 6 {
	case 0:
		return x + 1
	case 1:
		return 2*x + 1
	case 3:
		return x // every seed is a fixed point: the sequence repeats one value for ever
	case 4:
		return min(2*x+1, 31) // saturates: a fixed point after a few steps
	case 5:
		return x / 2 // reaches the fixed point 0
	}
	return (3*x + 1) % 1000003
}

func emitF(fn, i int) int {
	switch fn % 3 {
	case 0:
		return i*7 + 3
	case 1:
		return i
	}
	return -i - 1
}

const prime = 1000003

func gcd(a, b int) int {
	if a < 0 {
		a = -a
	}
	if b < 0 {
		b = -b
	}
	for b != 0 {
		a, b = b, a%b
	}
	return a
}

// Monoids, built with the repository's own pure/monoid. All but "seq" are
// commutative; "seq" is order-sensitive (used for the sequential Fold only).
var monoidNames = []string{"sum", "prod", "max", "min", "and", "or", "gcd"}

// monoidDef is the plain-Go definition (identity, operation) of a monoid: the
// reference model folds with these directly and never goes through the
// repository's pure/monoid, which is part of what is being checked.
func monoidDef(name string) (int, func(a, b int) int) {
	switch name {
	case "sum":
		return 0, func(a, b int) int { return a + b }
	case "prod":
		return 1, func(a, b int) int { return (a % prime) * (b % prime) % prime }
	case "prodx": // plain product: with distinct primes as input the exponents count how often each element was combined
		return 1, func(a, b int) int { return a * b }
	case "max":
		return math.MinInt, func(a, b int) int { return max(a, b) }
	case "min":
		return math.MaxInt, func(a, b int) int { return min(a, b) }
	case "and":
		return -1, func(a, b int) int { return a & b }
	case "or":
		return 0, func(a, b int) int { return a | b }
	case "gcd":
		return 0, gcd
	case "seq":
		return 7, func(a, b int) int { return ((a%prime)*31 + b%prime + prime) % prime }
	}
	panic("unknown monoid " + name)
}

// monoidOf builds the monoid handed to the library with the repository's own
// pure/monoid constructors (FromOp, or From over a pure/semigroup).
func monoidOf(name string) monoid.Monoid[int] {
	empty, op := monoidDef(name)
	if len(name)%2 == 0 {
		return monoid.From[int](empty, semigroup.From[int](op))
	}
	return monoid.FromOp(empty, op)
}

// countingMonoid counts Combine applications per right-hand element.
type countingMonoid struct {
	m        monoid.Monoid[int]
	e        *driver.Env
	combines int
	empties  int
}

func (c *countingMonoid) Empty() int { c.empties++; return c.m.Empty() }
func (c *countingMonoid) Combine(a, b int) int {
	if !simrt.Free() {
		c.combines++
		if c.e != nil {
			for i := 0; i < c.e.Plan.FnYields; i++ {
				simrt.Yield("monoid.yield")
			}
			if n := len(c.e.Plan.FnStallMs); n > 0 {
				if d := c.e.Plan.FnStallMs[c.combines%n]; d > 0 {
					c.e.Fault("fn_stall")
					simrt.Sleep("monoid.stall", time.Duration(d)*time.Millisecond)
				}
			}
		}
	}
	return c.m.Combine(a, b)
}

func foldModel(name string, xs []int) int {
	acc, op := monoidDef(name)
	for _, x := range xs {
		acc = op(acc, x)
	}
	return acc
}

// ------------------------------------------------------------------- model

// Model is the expected behaviour of a stage derived from the plan by plain
// list functions.
type Model struct {
	Out    []int           // primary output (finite stages)
	Out2   []int           // Partition: right side
	Errs   []int           // ids of expected errors, in order
	Calls  []int           // expected user-function arguments, in order (sequential stages)
	Inf    func(k int) int // k-th value of an infinite generator (after skipping failures)
	InfMax int             // number of values a generator delivers before a fail-fast error ends it (−1: unbounded)
	// number of input elements a sequential stage may consume at most (−1: all)
	MaxConsumed int
	// Free: elements whose fate the property leaves to the sequential stage's
	// own choice and that are therefore not predicted here — what a Filter or
	// Partition does with an element whose predicate *fails* (pred_fail). Such
	// an element may come out on either side (or not at all, for Filter), but
	// never twice.
	Free []int
}

func failSet(p *driver.Plan) map[int]bool {
	m := map[int]bool{}
	for _, i := range p.FailAt {
		m[i] = true
	}
	return m
}

func firstFail(p *driver.Plan, n int) int {
	best := -1
	for _, i := range p.FailAt {
		if i >= 0 && i < n && (best < 0 || i < best) {
			best = i
		}
	}
	return best
}

func baseStage(stage string) (string, bool) {
	if len(stage) > 5 && stage[:5] == "fork." {
		return stage[5:], true
	}
	return stage, false
}

func modelOf(p *driver.Plan) Model {
	m := modelOf0(p)
	if p.X("err_kind") == 3 {
		// one shared error value: only the number of errors is observable
		for i := range m.Errs {
			m.Errs[i] = sentinelID
		}
	}
	return m
}

func modelOf0(p *driver.Plan) Model {
	m := Model{MaxConsumed: -1, InfMax: -1}
	var in []int
	if len(p.Inputs) > 0 {
		in = p.Inputs[0]
	}
	fails := failSet(p)
	stage, isFork := baseStage(p.Stage)
	stop := len(in) // fail-fast: index of first failing element
	// fork + Lift with failing elements: every worker stops at its own first
	// failure while the others go on, so the exact result depends on the
	// distribution; the model is then an upper bound (that of Try) used for
	// the "nothing invented, nothing twice" clauses only.
	failfast := p.Mode == "lift" && !isFork
	if failfast {
		if ff := firstFail(p, len(in)); ff >= 0 {
			stop = ff
		}
	}
	switch stage {
	case "Map", "StdErr":
		for i, x := range in {
			if i > stop {
				break
			}
			m.Calls = append(m.Calls, x)
			if fails[i] && p.Mode != "pure" {
				m.Errs = append(m.Errs, x)
				if failfast {
					break
				}
				continue
			}
			m.Out = append(m.Out, mapImg(p.Fn, x))
		}
	case "FMap":
		for i, x := range in {
			m.Calls = append(m.Calls, x)
			if fails[i] && p.Mode != "pure" {
				m.Errs = append(m.Errs, x)
				if failfast {
					break
				}
				continue
			}
			m.Out = append(m.Out, fmapImg(p.Fn, x)...)
		}
	case "Filter":
		for i, x := range in {
			m.Calls = append(m.Calls, x)
			if p.X("pred_fail") == 1 && fails[i] {
				m.Free = append(m.Free, x)
				continue
			}
			if pred(p.Fn, p.FnArg, x) {
				m.Out = append(m.Out, x)
			}
		}
	case "Take":
		for i, x := range in {
			if i >= p.N {
				break
			}
			m.Out = append(m.Out, x)
		}
		m.MaxConsumed = p.N
	case "TakeWhile":
		for _, x := range in {
			m.Calls = append(m.Calls, x)
			if !pred(p.Fn, p.FnArg, x) {
				break
			}
			m.Out = append(m.Out, x)
		}
	case "Partition":
		for i, x := range in {
			m.Calls = append(m.Calls, x)
			if p.X("pred_fail") == 1 && fails[i] {
				m.Free = append(m.Free, x)
				continue
			}
			if pred(p.Fn, p.FnArg, x) {
				m.Out = append(m.Out, x)
			} else {
				m.Out2 = append(m.Out2, x)
			}
		}
	case "Fold":
		m.Out = []int{foldModel(p.Monoid, in)}
	case "ForEach":
		m.Calls = append(m.Calls, in...)
	case "Void":
	case "Seq", "ToSeq", "Throttling":
		m.Out = append(m.Out, in...)
	case "Join":
		// order across inputs is free: see joinCheck
	case "Unfold":
		// seed = p.FnArg; value k = f^k(seed); call k computes value k+1
		if ff := firstFail(p, 1<<30); ff >= 0 && p.Mode == "lift" {
			m.InfMax = ff + 1
			m.Errs = []int{ff}
		}
		m.Inf = func(k int) int {
			x := p.FnArg
			for i := 0; i < k; i++ {
				x = unfoldF(p.Fn, x)
			}
			return x
		}
	case "Emit":
		if p.Mode == "lift" {
			if ff := firstFail(p, 1<<30); ff >= 0 {
				m.InfMax = ff
				m.Errs = []int{ff}
			}
		} else if p.Mode == "try" {
			// every failing index, ascending (no horizon: a plan may fail at any index)
			for i := range fails {
				if i >= 0 {
					m.Errs = append(m.Errs, i)
				}
			}
			sort.Ints(m.Errs)
		}
		m.Inf = func(k int) int {
			// k-th non-failing index
			i := 0
			for seen := 0; ; i++ {
				if fails[i] && p.Mode != "pure" {
					continue
				}
				if seen == k {
					break
				}
				seen++
			}
			return emitF(p.Fn, i)
		}
	}
	return m
}

// --------------------------------------------------------------------- Sys

// Sys is one stage under test with its environment.
type Sys struct {
	E     *driver.Env
	P     *driver.Plan
	M     Model
	InCh  []chan int
	Prods []*driver.Prod
	Out   *driver.Stream[int]
	Out2  *driver.Stream[int]
	Err   *driver.Stream[error]
	Done  *driver.Stream[struct{}]
	Calls *driver.Calls
	Mon   *countingMonoid

	ToSeqRes  []int
	ToSeqDone bool
	fork      bool
	multiset  bool // outputs are compared as multisets (fork stages)
	Clause    string
	joinChk   func(i, v int)
	Start     time.Duration // virtual time at which the stage was constructed
	sfx       string        // suffix of task and stream names (second instance of a twin run)
	pinned    bool          // user functions belong to this instance only
	group     int           // task group of this instance (twin runs)
}

func (s *Sys) fails(idx int) bool {
	for _, i := range s.P.FailAt {
		if i == idx {
			return true
		}
	}
	return false
}

// pos is the input position of the element a user function was called with:
// for sequential stages the call index (the stage visits elements in order,
// and the oracle checks that separately), for fork stages the index of the
// (distinct) element.
func (s *Sys) pos(callIdx, x int) int {
	if s.fork || callIdx < 0 {
		return s.indexOf(x)
	}
	return callIdx
}

func (s *Sys) indexOf(x int) int {
	if len(s.P.Inputs) == 0 {
		return -1
	}
	for i, y := range s.P.Inputs[0] {
		if y == x {
			return i
		}
	}
	return -1
}

// elemFn is the user function of Map-like stages: fails on planned element
// positions.
func (s *Sys) elemFn() func(int) (int, error) {
	return func(x int) (int, error) {
		s := s.cur() // the stage in use now (a morphism value may be shared by two uses)
		idx := s.E.Enter(s.Calls, x)
		defer s.E.Leave(s.Calls, idx)
		if s.P.Mode != "pure" && s.fails(s.pos(idx, x)) {
			s.E.Fault("fn_error")
			return s.junk(x), failure(s.P, x)
		}
		return mapImg(s.P.Fn, x), nil
	}
}

func (s *Sys) predFn() func(int) (bool, error) {
	return func(x int) (bool, error) {
		s := s.cur() // the stage in use now (a morphism value may be shared by two uses)
		defer s.E.Leave(s.Calls, s.E.Enter(s.Calls, x))
		if s.P.X("pred_fail") == 1 && s.fails(s.indexOf(x)) {
			// a predicate that answers and fails at the same time
			s.E.Fault("fn_error")
			return pred(s.P.Fn, s.P.FnArg, x), failure(s.P, x)
		}
		return pred(s.P.Fn, s.P.FnArg, x), nil
	}
}

// junk is what a failing user function returns next to its error: the zero
// value, or (err_val) some other value that must never be delivered.
func (s *Sys) junk(x int) int {
	if s.P.X("err_val") == 1 {
		return 777000 + x
	}
	return 0
}

func (s *Sys) visitFn() func(int) (int, error) {
	return func(x int) (int, error) {
		s := s.cur() // the stage in use now (a morphism value may be shared by two uses)
		defer s.E.Leave(s.Calls, s.E.Enter(s.Calls, x))
		if s.P.Mode != "pure" && s.fails(s.indexOf(x)) {
			// ForEach has nowhere to report a failure: every element is
			// still visited exactly once
			s.E.Fault("fn_error")
			return x, failure(s.P, x)
		}
		return x, nil
	}
}

func (s *Sys) arrowFn() func(context.Context, int, chan<- int) error {
	return func(ctx context.Context, x int, out chan<- int) error {
		s := s.cur()
		idx := s.E.Enter(s.Calls, x)
		defer s.E.Leave(s.Calls, idx)
		if s.P.Mode != "pure" && s.fails(s.pos(idx, x)) {
			s.E.Fault("fn_error")
			return failure(s.P, x)
		}
		for _, y := range fmapImg(s.P.Fn, x) {
			sel := simrt.Select("fn.emit", false, simrt.Snd(out, y), simrt.R(ctx.Done()))
			if sel.I == 1 {
				return nil
			}
		}
		return nil
	}
}

// genFn is the user function of Emit (argument: index) and Unfold (argument:
// previous seed); fails on planned *call* indices.
func (s *Sys) genFn(unfold bool) func(int) (int, error) {
	return func(x int) (int, error) {
		s := s.cur()
		idx := s.E.Enter(s.Calls, x)
		if idx < 0 {
			return 0, nil
		}
		defer s.E.Leave(s.Calls, idx)
		if s.P.Mode != "pure" && s.fails(idx) {
			s.E.Fault("fn_error")
			return s.junk(idx), failure(s.P, idx)
		}
		if unfold {
			return unfoldF(s.P.Fn, x), nil
		}
		return emitF(s.P.Fn, x), nil
	}
}

// cur is the stage a shared user function is working for right now: the one
// in use (phased runs), or — when two instances live side by side — its own.
func (s *Sys) cur() *Sys {
	if s.pinned {
		return s
	}
	return curSys(s.E)
}

// curSys is the stage under test at this moment of the run.
func curSys(e *driver.Env) *Sys {
	switch d := e.Data.(type) {
	case *Sys:
		return d
	case *c10State:
		return d.s
	}
	return nil
}

// shared returns the morphism value built for an earlier use of the stage in
// the same run, if any: a caller may well keep one pipe.Lift(f) value and
// hand it to several stages.
func shared[T any](e *driver.Env, key string, mk func() T) T {
	if e.Plan.Twin != nil || e.Plan.X("is_twin") == 1 {
		return mk() // two instances side by side: each has its own functions
	}
	if e.Shared == nil {
		e.Shared = map[string]any{}
	}
	if v, ok := e.Shared[key]; ok {
		return v.(T)
	}
	v := mk()
	e.Shared[key] = v
	return v
}

func pipeF[B any](mode string, f func(int) (B, error)) pipe.F[int, B] {
	switch mode {
	case "lift":
		return pipe.Lift(f)
	case "try":
		return pipe.Try(f)
	}
	return pipe.Pure(func(x int) B { v, _ := f(x); return v })
}

func forkF[B any](mode string, f func(int) (B, error)) fork.F[int, B] {
	switch mode {
	case "lift":
		return fork.Lift(f)
	case "try":
		return fork.Try(f)
	}
	return fork.Pure(func(x int) B { v, _ := f(x); return v })
}

func (s *Sys) input(i int) chan int {
	if i < len(s.InCh) {
		return s.InCh[i]
	}
	c := s.P.Cap
	if i < len(s.P.InCaps) {
		c = s.P.InCaps[i]
	}
	ch := make(chan int, c)
	s.InCh = append(s.InCh, ch)
	var items []int
	if i < len(s.P.Inputs) {
		items = s.P.Inputs[i]
	}
	s.Prods = append(s.Prods, driver.Produce(s.E, fmt.Sprintf("producer%d%s", i, s.sfx), ch, items, s.P.Producer(i)))
	return ch
}

// afterCancelNote: an error value that does not stand for a failing element
// and that arrives once the context has been cancelled (say, "stopped:
// deadline exceeded") is not what the properties speak about — they promise
// one error per failing element, not a silent error channel after a cancel.
func (s *Sys) afterCancelNote(id, seq int) bool {
	return id == math.MinInt && s.E.Cancelled.Load() && seq >= s.E.CancelSeq
}

func (s *Sys) consumeOut(ch <-chan int) {
	s.Out = driver.Consume(s.E, "consumer.out"+s.sfx, ch, s.P.Consumer(0), func(i int, v int) {
		s.onValue("out", s.Out, s.M.Out, i, v)
	})
}

func (s *Sys) consumeOut2(ch <-chan int) {
	s.Out2 = driver.Consume(s.E, "consumer.out2"+s.sfx, ch, s.P.Consumer(1), func(i int, v int) {
		s.onValue("out2", s.Out2, s.M.Out2, i, v)
	})
}

func (s *Sys) consumeErr(ch <-chan error) {
	s.Err = driver.Consume(s.E, "consumer.err"+s.sfx, ch, s.P.Consumer(2), func(i int, err error) {
		id := errID(err)
		if s.afterCancelNote(id, s.E.S.Seq) {
			return
		}
		if s.multiset {
			s.onMulti("err", s.Err.Got[:i], s.M.Errs, id)
			return
		}
		if i >= len(s.M.Errs) || s.M.Errs[i] != id {
			s.E.Failf(s.Clause+".errprefix", "error stream is not a prefix of the expected errors",
				"%s: error %d is %v, expected errors %v", s.P.Stage, i, err, s.M.Errs)
		}
	})
}

// outErr hooks up a (values, errors) pair: either both are consumed by
// environment tasks, or — variant "stderr" — the library's own StdErr drains
// the error channel.
func (s *Sys) outErr(out <-chan int, exx <-chan error) {
	if s.P.X("stderr") == 1 {
		s.consumeOut(pipe.StdErr(out, exx))
		return
	}
	s.consumeOut(out)
	s.consumeErr(exx)
}

func (s *Sys) consumeDone(ch <-chan struct{}) {
	s.Done = driver.Consume(s.E, "consumer.done"+s.sfx, ch, s.P.Consumer(0), func(i int, _ struct{}) {
		s.E.Failf(s.Clause+".prefix", "value on a done channel", "%s: done channel delivered a value", s.P.Stage)
	})
}

// onValue is the online prefix clause: what has been delivered so far is a
// prefix of the model's output (or, for fork stages, a sub-multiset).
func (s *Sys) onValue(name string, st *driver.Stream[int], want []int, i, v int) {
	if s.M.Inf != nil {
		if s.M.InfMax >= 0 && i >= s.M.InfMax {
			s.E.Failf(s.Clause+".prefix", "generator delivered a value after its fail-fast error",
				"%s: value %d (%d) delivered although the function failed at call %d", s.P.Stage, i, v, s.M.Errs)
			return
		}
		if w := s.M.Inf(i); w != v {
			s.E.Failf(s.Clause+".prefix", "generator delivered a value out of sequence",
				"%s: value %d is %d, expected %d", s.P.Stage, i, v, w)
		}
		return
	}
	stage, _ := baseStage(s.P.Stage)
	if stage == "Join" {
		if s.joinChk != nil {
			s.joinChk(i, v)
		}
		return
	}
	if s.multiset {
		got := make([]driver.Obs[int], i)
		copy(got, st.Got[:i])
		cnt := 0
		for _, o := range got {
			if o.V == v {
				cnt++
			}
		}
		wantCnt := 0
		for _, w := range want {
			if w == v {
				wantCnt++
			}
		}
		for _, w := range s.M.Free {
			if w == v {
				wantCnt++ // may come out here (at most as often as it went in)
			}
		}
		if cnt+1 > wantCnt {
			s.E.Failf(s.Clause+".prefix", "delivered an element the sequential stage would not deliver (invented or duplicated)",
				"%s %s: value %d delivered %d times, model has it %d times (model %v)", s.P.Stage, name, v, cnt+1, wantCnt, want)
		}
		return
	}
	if i >= len(want) || want[i] != v {
		s.E.Failf(s.Clause+".prefix", "delivered sequence is not a prefix of the list image",
			"%s %s: element %d is %d; expected sequence %v, got so far %v", s.P.Stage, name, i, v, want, st.Values())
	}
}

func (s *Sys) onMulti(name string, before []driver.Obs[error], want []int, id int) {
	cnt := 0
	for _, o := range before {
		if errID(o.V) == id {
			cnt++
		}
	}
	wantCnt := 0
	for _, w := range want {
		if w == id {
			wantCnt++
		}
	}
	if cnt+1 > wantCnt {
		s.E.Failf(s.Clause+".errprefix", "delivered an error the model does not have (invented or duplicated)",
			"%s %s: err#%d delivered %d times, expected %d", s.P.Stage, name, id, cnt+1, wantCnt)
	}
}

// planInterval is the Throttling interval / Emit frequency of a plan: whole
// milliseconds plus an optional sub-millisecond part.
func planInterval(p *driver.Plan) time.Duration {
	return time.Duration(p.IntervalMs)*time.Millisecond + time.Duration(p.X("interval_us"))*time.Microsecond + time.Duration(p.X("interval_ns"))
}

// BuildStage creates the stage named by the plan with producers and consumers.
// Twin is a pair of stage instances alive side by side in one run (isolated
// runs only: what they may share is package-level state of the library).
type Twin struct{ A, B *Sys }

// BuildTwin builds the stage of the plan and, next to it, the stage of
// plan.Twin with its own environment.
func BuildTwin(e *driver.Env, clause string) *Twin {
	pa := e.Plan
	if n := pa.X("crowd"); n > 0 {
		buildCrowd(e, n)
	}
	a := buildStage(e, clause, "", true)
	pb := pa.Twin
	pb.SetX("is_twin", 1)
	e.Plan = pb
	b := buildStage(e, clause, "#2", true)
	e.Plan = pa
	return &Twin{A: a, B: b}
}

// buildCrowd parks n unrelated stages (group 3: no oracle looks at them) on
// inputs that stay open and silent until the run is over: whatever the stages
// under test share with them process-wide — a budget of goroutines, a registry,
// a pool — is then used up or populated.
func buildCrowd(e *driver.Env, n int) {
	e.S.SpawnGroup = 3
	defer func() { e.S.SpawnGroup = 0 }()
	ctx, cancel := context.WithCancel(context.Background())
	var ins []chan int
	for i := 0; i < n; i++ {
		in := make(chan int)
		ins = append(ins, in)
		switch i % 3 {
		case 0:
			pipe.Void(ctx, in)
		case 1:
			pipe.Filter(ctx, in, pipe.Pure(func(int) bool { return true }))
		default:
			pipe.Map(ctx, in, pipe.Pure(func(x int) int { return x }))
		}
	}
	e.Probe("crowd_of_parked_stages")
	e.OnCleanup = append(e.OnCleanup, func() {
		cancel()
		for _, in := range ins {
			close(in)
		}
	})
}

// EachTwin evaluates an oracle written for one stage on both instances.
func EachTwin(e *driver.Env, final func(*driver.Env)) {
	tw := e.Data.(*Twin)
	plan, all := e.Plan, e.Tasks
	// Which goroutine belongs to which instance is known by who started it. A
	// library that recycles goroutines across stages (a package-level worker
	// pool) breaks that attribution: a goroutine started for one instance may
	// be running the other one's stage. So "this instance's goroutines are
	// gone" is only asked when both instances are through with their inputs;
	// while one of them is kept alive on purpose, goroutines still alive are
	// left out of the picture (single-instance runs ask the question anyway).
	bothDone := tw.A.InputsClosed() && tw.B.InputsClosed()
	for _, s := range []*Sys{tw.A, tw.B} {
		// the oracle sees the library tasks of its own instance only
		var own []simrt.TaskInfo
		for _, t := range all {
			if t.Lib && !bothDone && t.State != "exited" {
				continue
			}
			if !t.Lib || t.Group == s.group {
				own = append(own, t)
			}
		}
		e.Data, e.Plan, e.Tasks = s, s.P, own
		final(e)
		if e.Viol != nil {
			break
		}
	}
	e.Data, e.Plan, e.Tasks = tw, plan, all
}

func BuildStage(e *driver.Env, clause string) *Sys { return buildStage(e, clause, "", false) }

func buildStage(e *driver.Env, clause, sfx string, pinned bool) *Sys {
	p := e.Plan
	s := &Sys{E: e, P: p, M: modelOf(p), Calls: &driver.Calls{}, Clause: clause, sfx: sfx, pinned: pinned}
	if pinned {
		// tasks of this instance (and everything they spawn) carry its group
		s.group = 1
		if sfx != "" {
			s.group = 2
		}
		e.S.SpawnGroup = s.group
		defer func() { e.S.SpawnGroup = 0 }()
	}
	stage, isFork := baseStage(p.Stage)
	s.fork = isFork
	s.multiset = isFork
	// the producers exist (and may run) before the stage does
	switch stage {
	case "Emit", "Unfold", "Seq":
	case "Join":
		for i := range p.Inputs {
			s.input(i)
		}
	default:
		s.input(0)
	}
	if k := p.X("late_build"); k > 0 {
		// the stage is constructed late: by then the producers may already
		// have filled the input buffers and be parked on the next send
		simrt.GoEnv("builder"+s.sfx, func() {
			for i := 0; i < k; i++ {
				simrt.Yield("builder.wait")
			}
			if d := p.X("build_delay_us"); d > 0 {
				simrt.Sleep("builder.delay", time.Duration(d)*time.Microsecond)
			}
			if !simrt.Free() {
				s.construct(clause)
			}
		})
		return s
	}
	s.construct(clause)
	return s
}

// construct calls the stage constructor and attaches the consumers.
func (s *Sys) construct(clause string) *Sys {
	e, p := s.E, s.P
	stage, isFork := baseStage(p.Stage)
	ctx := e.Ctx
	freq := planInterval(p)
	s.Start = e.S.Now()
	if isFork {
		par := p.Par
		switch stage {
		case "Map":
			s.outErr(fork.Map(ctx, par, s.input(0), shared(e, "fork.elem."+p.Mode, func() fork.F[int, int] { return forkF(p.Mode, s.elemFn()) })))
		case "FMap":
			var ff fork.FF[int, int]
			if p.Mode == "try" {
				ff = shared(e, "fork.tryf", func() fork.FF[int, int] { return fork.TryF(s.arrowFn()) })
			} else {
				ff = shared(e, "fork.liftf", func() fork.FF[int, int] { return fork.LiftF(s.arrowFn()) })
			}
			s.outErr(fork.FMap(ctx, par, s.input(0), ff))
		case "Filter":
			s.consumeOut(fork.Filter(ctx, par, s.input(0), forkF("lift", s.predFn())))
		case "Partition":
			l, r := fork.Partition(ctx, par, s.input(0), forkF("lift", s.predFn()))
			s.consumeOut(l)
			s.consumeOut2(r)
		case "ForEach":
			feMode := "lift"
			if p.Mode == "try" {
				feMode = "try"
			}
			s.consumeDone(fork.ForEach(ctx, par, s.input(0), forkF(feMode, s.visitFn())))
		case "Void":
			s.consumeDone(fork.Void(ctx, par, s.input(0)))
		case "Fold":
			s.Mon = &countingMonoid{m: monoidOf(p.Monoid), e: e}
			s.multiset = false
			s.consumeOut(fork.Fold(ctx, par, s.input(0), s.Mon))
		default:
			panic("unknown fork stage " + stage)
		}
		return s
	}
	if p.X("via_fork") == 1 && s.constructViaFork(stage, clause, freq) {
		return s
	}
	switch stage {
	case "Map":
		s.outErr(pipe.Map(ctx, s.input(0), shared(e, "pipe.elem."+p.Mode, func() pipe.F[int, int] { return pipeF(p.Mode, s.elemFn()) })))
	case "StdErr":
		out, exx := pipe.Map(ctx, s.input(0), pipeF(p.Mode, s.elemFn()))
		s.consumeOut(pipe.StdErr(out, exx))
	case "FMap":
		var ff pipe.FF[int, int]
		if p.Mode == "try" {
			ff = shared(e, "pipe.tryf", func() pipe.FF[int, int] { return pipe.TryF(s.arrowFn()) })
		} else {
			ff = shared(e, "pipe.liftf", func() pipe.FF[int, int] { return pipe.LiftF(s.arrowFn()) })
		}
		s.outErr(pipe.FMap(ctx, s.input(0), ff))
	case "Filter":
		s.consumeOut(pipe.Filter(ctx, s.input(0), shared(e, "pipe.pred", func() pipe.F[int, bool] { return pipeF("lift", s.predFn()) })))
	case "Take":
		s.consumeOut(pipe.Take(ctx, s.input(0), p.N))
	case "TakeWhile":
		s.consumeOut(pipe.TakeWhile(ctx, s.input(0), shared(e, "pipe.pred", func() pipe.F[int, bool] { return pipeF("lift", s.predFn()) })))
	case "Partition":
		l, r := pipe.Partition(ctx, s.input(0), shared(e, "pipe.pred", func() pipe.F[int, bool] { return pipeF("lift", s.predFn()) }))
		s.consumeOut(l)
		s.consumeOut2(r)
	case "Fold":
		s.Mon = &countingMonoid{m: monoidOf(p.Monoid)}
		s.consumeOut(pipe.Fold(ctx, s.input(0), s.Mon))
	case "ForEach":
		s.consumeDone(pipe.ForEach(ctx, s.input(0), pipeF("lift", s.visitFn())))
	case "Void":
		s.consumeDone(pipe.Void(ctx, s.input(0)))
	case "Seq":
		var xs []int
		if len(p.Inputs) > 0 {
			xs = p.Inputs[0]
		}
		// the caller owns its slice again as soon as Seq has returned
		buf := append([]int(nil), xs...)
		ch := pipe.Seq(buf...)
		for i := range buf {
			buf[i] = -7777 - i
		}
		s.consumeOut(ch)
	case "ToSeq":
		in := s.input(0)
		simrt.GoEnv("toseq"+s.sfx, func() {
			r := pipe.ToSeq[int](in)
			if !simrt.Free() {
				s.ToSeqRes, s.ToSeqDone = r, true
			}
		})
	case "Join":
		var ins []<-chan int
		for i := range p.Inputs {
			ins = append(ins, s.input(i))
		}
		if p.X("dup_input") == 1 && len(ins) > 0 {
			// the same channel handed to Join twice: two copiers share it
			ins = append(ins, ins[0])
		}
		s.joinChk = joinOnline(s, clause+".prefix")
		joined := pipe.Join(ctx, ins...)
		// the caller owns its slice again as soon as Join has returned
		closed := make(chan int)
		close(closed)
		for i := range ins {
			ins[i] = closed
		}
		s.consumeOut(joined)
	case "Throttling":
		s.consumeOut(pipe.Throttling(ctx, s.input(0), p.N, freq))
	case "Emit":
		s.outErr(pipe.Emit(ctx, p.Cap, freq, pipeF(p.Mode, s.genFn(false))))
	case "Unfold":
		s.outErr(pipe.Unfold(ctx, p.Cap, p.FnArg, pipeF(p.Mode, s.genFn(true))))
	default:
		panic("unknown stage " + stage)
	}
	return s
}

// constructViaFork builds the stages that package fork re-exports
// (fork.Take, fork.TakeWhile, fork.Seq, fork.ToSeq, fork.Join,
// fork.Throttling, fork.Emit, fork.Unfold, fork.StdErr) through those
// entry points: same documented behaviour, other code path.
func (s *Sys) constructViaFork(stage, clause string, freq time.Duration) bool {
	e, p := s.E, s.P
	ctx := e.Ctx
	switch stage {
	case "StdErr":
		out, exx := pipe.Map(ctx, s.input(0), pipeF(p.Mode, s.elemFn()))
		s.consumeOut(fork.StdErr(out, exx))
	case "Take":
		s.consumeOut(fork.Take(ctx, s.input(0), p.N))
	case "TakeWhile":
		s.consumeOut(fork.TakeWhile(ctx, s.input(0), forkF("lift", s.predFn())))
	case "Seq":
		var xs []int
		if len(p.Inputs) > 0 {
			xs = p.Inputs[0]
		}
		buf := append([]int(nil), xs...)
		ch := fork.Seq(buf...)
		for i := range buf {
			buf[i] = -7777 - i
		}
		s.consumeOut(ch)
	case "ToSeq":
		in := s.input(0)
		simrt.GoEnv("toseq"+s.sfx, func() {
			r := fork.ToSeq[int](in)
			if !simrt.Free() {
				s.ToSeqRes, s.ToSeqDone = r, true
			}
		})
	case "Join":
		var ins []<-chan int
		for i := range p.Inputs {
			ins = append(ins, s.input(i))
		}
		if p.X("dup_input") == 1 && len(ins) > 0 {
			ins = append(ins, ins[0])
		}
		s.joinChk = joinOnline(s, clause+".prefix")
		joined := fork.Join(ctx, ins...)
		closed := make(chan int)
		close(closed)
		for i := range ins {
			ins[i] = closed
		}
		s.consumeOut(joined)
	case "Throttling":
		s.consumeOut(fork.Throttling(ctx, s.input(0), p.N, freq))
	case "Emit":
		s.outErr(fork.Emit(ctx, p.Cap, freq, forkF(p.Mode, s.genFn(false))))
	case "Unfold":
		s.outErr(fork.Unfold(ctx, p.Cap, p.FnArg, forkF(p.Mode, s.genFn(true))))
	default:
		return false
	}
	return true
}

// ----------------------------------------------------------- shared clauses

func eqInts(a, b []int) bool {
	if len(a) != len(b) {
		return false
	}
	for i := range a {
		if a[i] != b[i] {
			return false
		}
	}
	return true
}

func sameMultiset(a, b []int) bool {
	if len(a) != len(b) {
		return false
	}
	m := map[int]int{}
	for _, x := range a {
		m[x]++
	}
	for _, x := range b {
		m[x]--
		if m[x] < 0 {
			return false
		}
	}
	return true
}

func (s *Sys) streams() []struct {
	name      string
	closed    bool
	abandoned bool
	probe     func() (bool, int)
	cap       int
} {
	var out []struct {
		name      string
		closed    bool
		abandoned bool
		probe     func() (bool, int)
		cap       int
	}
	add := func(name string, closed, ab bool, probe func() (bool, int)) {
		out = append(out, struct {
			name      string
			closed    bool
			abandoned bool
			probe     func() (bool, int)
			cap       int
		}{name: name, closed: closed, abandoned: ab, probe: probe})
	}
	if s.Out != nil {
		add("out", s.Out.Closed, s.Out.Abandoned, s.Out.ProbeClosed)
	}
	if s.Out2 != nil {
		add("out2", s.Out2.Closed, s.Out2.Abandoned, s.Out2.ProbeClosed)
	}
	if s.Err != nil {
		add("err", s.Err.Closed, s.Err.Abandoned, s.Err.ProbeClosed)
	}
	if s.Done != nil {
		add("done", s.Done.Closed, s.Done.Abandoned, s.Done.ProbeClosed)
	}
	return out
}

// InputsClosed: every producer closed its channel itself (not at clean-up).
func (s *Sys) InputsClosed() bool {
	for _, p := range s.Prods {
		if !p.Closed {
			return false
		}
	}
	return true
}

// AllDrained: no consumer abandoned its channel.
func (s *Sys) AllDrained() bool {
	for _, st := range s.streams() {
		if st.abandoned {
			return false
		}
	}
	return true
}

// NoPanic is the "no library goroutine ever panics" clause.
func (s *Sys) NoPanic(clause string) {
	if ps := s.E.LibPanics(); len(ps) > 0 {
		s.E.Failf(clause, "library goroutine panicked: "+ps[0].Panic, "%s: %s [%s]", s.P.Stage, driver.DescribeTasks(ps), ps[0].Stack)
	}
}

// Closure clauses shared by C05/C06/C07/C09: see DESIGN §6.2.
//   - without cancel, inputs closed and outputs drained: every returned
//     channel closed and every library task exited (one Throttling task may
//     live on);
//   - cancelled and inputs closed: every library task exited and every
//     returned channel closes after at most its buffered elements, even when
//     abandoned.
func (s *Sys) Closure(clauseNoCancel, clauseCancel string) {
	e := s.E
	if !e.Quiescent {
		return
	}
	stage, _ := baseStage(s.P.Stage)
	cancelled := e.Cancelled.Load()
	if !s.InputsClosed() {
		return
	}
	alive := e.LibTasksAlive(nil)
	if cancelled {
		if len(alive) > 0 {
			e.Failf(clauseCancel, "library goroutine still alive after cancel with inputs closed",
				"%s: after cancel and close of all inputs: %s", s.P.Stage, driver.DescribeTasks(alive))
			return
		}
		for _, st := range s.streams() {
			if st.closed {
				continue
			}
			if ok, n := st.probe(); !ok {
				e.Failf(clauseCancel, "returned channel not closed after cancel with inputs closed",
					"%s: channel %s is still open after cancel (skipped %d buffered elements)", s.P.Stage, st.name, n)
				return
			}
		}
		return
	}
	if !s.AllDrained() {
		return
	}
	if stage == "Emit" || stage == "Unfold" {
		// never end on their own unless a fail-fast error ended them
		if !(s.P.Mode == "lift" && s.Err != nil && len(s.Err.Got) > 0) {
			return
		}
	}
	allowed := 0
	if stage == "Throttling" {
		allowed = 1 // the pacer may live until cancel
	}
	if len(alive) > allowed {
		e.Failf(clauseNoCancel, "library goroutine still alive after inputs closed and outputs drained",
			"%s: inputs closed, outputs drained, no cancel: %s", s.P.Stage, driver.DescribeTasks(alive))
		return
	}
	for _, st := range s.streams() {
		if !st.closed {
			e.Failf(clauseNoCancel, "returned channel not closed after inputs closed and outputs drained",
				"%s: channel %s never closed (inputs closed, consumer still waiting)", s.P.Stage, st.name)
			return
		}
	}
	if stage == "ToSeq" && !s.ToSeqDone {
		e.Failf(clauseNoCancel, "ToSeq did not return after its input closed", "ToSeq still collecting")
	}
}
