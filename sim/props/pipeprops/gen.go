package pipeprops

import "verif/sim/driver"

// stride separates the elements of different inputs.
const stride = 100000

func init() { driver.InputStride = stride }

// elements of input i are distinct and attributable: stride*i+index (the very
// first element is 0: the zero value must travel like any other).
func elems(input, n int) []int {
	out := make([]int, n)
	for k := range out {
		out[k] = stride*input + k
	}
	return out
}

var caps = []int{0, 1, 2, 5, 16}

// genCap draws a channel capacity: mostly the small ones where blocking
// behaviour differs, every value up to 9 now and then, rarely a big one.
func genCap(r *driver.Rand) int {
	switch r.Intn(8) {
	case 0, 1, 2, 3:
		return driver.Pick(r, 0, 0, 1, 2)
	case 4, 5, 6:
		return r.Intn(10)
	}
	return driver.Pick(r, 16, 32, 64, 100)
}

// genPar draws a worker count.
func genPar(r *driver.Rand) int {
	if r.Chance(1, 8) {
		return driver.Pick(r, 12, 16, 17, 32)
	}
	return 1 + r.Intn(9)
}

func genLen(r *driver.Rand, thorough bool) int {
	// rare long inputs: sizes around powers of two, where chunking or
	// buffering mistakes live
	if (thorough && r.Chance(1, 15)) || r.Chance(1, 50) {
		if r.Chance(1, 6) {
			if thorough && r.Chance(1, 3) {
				return driver.Pick(r, 2049, 4097)
			}
			return driver.Pick(r, 513, 1025) // beyond page-sized internal buffers
		}
		return driver.Pick(r, 17, 33, 64, 65, 100, 128, 129, 257)
	}
	if thorough && r.Chance(1, 4) {
		return r.Intn(41)
	}
	return r.Intn(7)
}

// genValues replaces the attributable default elements by a sequence over a
// tiny alphabet: zeros, negatives, repeats and runs of equal values. Only for
// stages whose model is a pure list function (no attribution needed).
func genValues(r *driver.Rand, n int) []int {
	out := make([]int, n)
	alpha := []int{0, 0, 1, -1, 2, 7, 7}
	for i := range out {
		if i > 0 && r.Chance(1, 3) {
			out[i] = out[i-1]
		} else {
			out[i] = alpha[r.Intn(len(alpha))]
		}
	}
	return out
}

func genDelays(r *driver.Rand) []int {
	if !r.Chance(1, 3) {
		return nil
	}
	n := 1 + r.Intn(3)
	out := make([]int, n)
	for i := range out {
		out[i] = driver.Pick(r, 0, 0, 1, 5, 20)
	}
	if r.Chance(1, 6) {
		// a long pause: seconds or minutes of virtual time cost nothing
		out[r.Intn(n)] = driver.Pick(r, 1000, 1500, 10000, 61000)
	}
	return out
}

// genSched fills the scheduling part of a plan (swarm style: varied per run).
func genSched(r *driver.Rand, p *driver.Plan) {
	p.Policy = driver.Pick(r, driver.AllPolicies...)
	if r.Chance(1, 3) {
		p.Policy = driver.PolUniform
	}
	p.Budget = driver.Pick(r, 4000, 4000, 200, 60)
	p.PreemptN = driver.Pick(r, 0, 0, 0, 2, 4, 8)
	// FMap: now and then the family with very long images
	if st, _ := baseStage(p.Stage); st == "FMap" && r.Chance(1, 4) {
		p.Fn = 4 + 5*r.Intn(12)
	}
	// failing user functions return something else than the zero value next to the error
	if r.Chance(1, 2) {
		p.SetX("err_val", 1)
	}
	// a context that ends by expiry: Err() is DeadlineExceeded, not Canceled
	if p.X("ctx_deadline") == 0 && r.Chance(1, 8) {
		p.SetX("ctx_deadline", 2)
	}
	// a context that cannot be cancelled at all (takes effect only in plans
	// that never cancel, see driver.Execute)
	if p.X("ctx_deadline") == 0 && p.CancelStep < 0 && p.CancelMs == 0 && !p.CancelAtEnd && r.Chance(1, 4) {
		p.SetX("ctx_deadline", 3)
	}
	// the stages package fork re-exports, through those entry points
	switch p.Stage {
	case "Take", "TakeWhile", "Seq", "ToSeq", "Join", "Throttling", "Emit", "Unfold", "StdErr":
		if r.Chance(1, 6) {
			p.SetX("via_fork", 1)
		}
	}
}

func genEnvPaces(r *driver.Rand, p *driver.Plan, producers, consumers int) {
	for i := 0; i < producers; i++ {
		pp := driver.ProducerPlan{DelaysMs: genDelays(r)}
		if r.Chance(1, 6) {
			pp.StartMs = driver.Pick(r, 1, 10, 50)
		}
		if r.Chance(1, 8) {
			pp.CloseMs = driver.Pick(r, 1, 30)
		}
		p.Producers = append(p.Producers, pp)
	}
	for i := 0; i < consumers; i++ {
		cp := driver.ConsumerPlan{Abandon: -1, DelaysMs: genDelays(r)}
		if r.Chance(1, 5) {
			cp.StartMs = driver.Pick(r, 1, 10, 50, 200, 1500, 61000)
		}
		p.Consumers = append(p.Consumers, cp)
	}
}

var basePolicies = []string{driver.PolRunBlock, driver.PolLibFirst, driver.PolEnvFirst, driver.PolRR, driver.PolLowest, driver.PolHighest}
