package pipeprops

import (
	"verif/sim/driver"
)

// Isolated runs (one run per process): two instances of a stage live side by
// side in one run. What they can share is package-level state of the library —
// a global semaphore, a shared helper goroutine, a registry of timers — and
// whatever such state does to the second instance is a violation of the
// property for that instance. In a worker process that executes thousands of
// runs such state would leak from one bubble into the next (a fatal runtime
// error), hence the isolation.

func stripForTwin(p *driver.Plan) {
	p.CancelStep, p.CancelMs, p.CancelAtEnd = -1, 0, false
	if p.Extra != nil {
		for _, k := range []string{"uses", "cancel_between", "ctx_deadline", "late_build", "sweep_cancel", "sweep_abandon"} {
			delete(p.Extra, k)
		}
	}
	for i := range p.Consumers {
		p.Consumers[i].Abandon = -1
		p.Consumers[i].AfterClosed = ""
	}
}

func isoGen(gen func(*driver.Rand, bool) *driver.Plan, ok func(*driver.Plan) bool, tweak func(r *driver.Rand, a, b *driver.Plan)) func(*driver.Rand, bool) *driver.Plan {
	draw := func(r *driver.Rand, thorough bool) *driver.Plan {
		for {
			p := gen(r, thorough)
			if p.Stage != "typed" && p.X("boxed") == 0 && ok(p) {
				stripForTwin(p)
				return p
			}
		}
	}
	return func(r *driver.Rand, thorough bool) *driver.Plan {
		a, b := draw(r, thorough), draw(r, thorough)
		if r.Chance(1, 2) {
			// the first instance stays alive for ever: its inputs never close
			for i := range a.Producers {
				a.Producers[i].NoClose = true
			}
		}
		if r.Chance(1, 2) {
			b.SetX("late_build", 1+r.Intn(6)) // the second instance starts while the first is at work
		}
		if tweak != nil {
			tweak(r, a, b)
		}
		if r.Chance(1, 5) {
			// more than a thousand other stages of the package are alive
			a.SetX("crowd", driver.Pick(r, 1030, 1100, 2100))
		}
		a.Twin = b
		return a
	}
}

func notGenerator(p *driver.Plan) bool { st, _ := baseStage(p.Stage); return !isGenerator(st) }

// withTwin lets a BuildStage-based scenario run twin plans.
func withTwin(sc *driver.Scenario, clause string, ok func(*driver.Plan) bool, tweak func(r *driver.Rand, a, b *driver.Plan)) {
	gen, build, final := sc.Gen, sc.Build, sc.Final
	sc.GenIso = isoGen(gen, ok, tweak)
	sc.Gen = func(r *driver.Rand, thorough bool) *driver.Plan {
		// now and then also in the bulk phase (package-level variables of the
		// instrumented library are per run, so nothing leaks between runs)
		if r.Chance(1, 30) {
			return sc.GenIso(r, thorough)
		}
		return gen(r, thorough)
	}
	sc.Build = func(e *driver.Env) {
		if e.Plan.Twin != nil {
			e.Data = BuildTwin(e, clause)
			return
		}
		build(e)
	}
	sc.Final = func(e *driver.Env) {
		if _, isTwin := e.Data.(*Twin); isTwin {
			EachTwin(e, final)
			return
		}
		final(e)
	}
	if valid := sc.Valid; valid != nil {
		sc.Valid = func(p *driver.Plan) bool { return p.Twin != nil || valid(p) }
	}
}

func initTwins() {
	any := func(*driver.Plan) bool { return true }
	withTwin(Scenarios["C05"], "C05.a", any, func(r *driver.Rand, a, b *driver.Plan) {
		// C05 speaks about complete runs: both instances get their inputs closed
		for i := range a.Producers {
			a.Producers[i].NoClose = false
		}
	})
	withTwin(Scenarios["C06"], "C06.b", notGenerator, nil)
	withTwin(Scenarios["C09"], "C09.b", any, nil)
	withTwin(Scenarios["C12"], "C12.a", any, nil)
	withTwin(Scenarios["C13"], "C13.a", any, func(r *driver.Rand, a, b *driver.Plan) {
		// the same rate on both, the second one constructed off the first one's beat
		b.N, b.IntervalMs = a.N, a.IntervalMs
		for _, k := range []string{"interval_us", "interval_ns"} {
			if v := a.X(k); v != 0 {
				b.SetX(k, v)
			} else if b.Extra != nil {
				delete(b.Extra, k)
			}
		}
		b.SetX("late_build", 1+r.Intn(6))
		if us := int(planInterval(a) / 1000); us > 1 {
			b.SetX("build_delay_us", 1+r.Intn(us*2))
		}
	})
	// C10: twin fork.Folds; the sequential comparison run is left out
	c10 := Scenarios["C10"]
	gen, build, final := c10.Gen, c10.Build, c10.Final
	c10.GenIso = isoGen(gen, func(p *driver.Plan) bool { return true }, func(r *driver.Rand, a, b *driver.Plan) {
		a.FnStallMs, b.FnStallMs = nil, nil
	})
	c10.Gen = func(r *driver.Rand, thorough bool) *driver.Plan {
		if r.Chance(1, 30) {
			return c10.GenIso(r, thorough)
		}
		return gen(r, thorough)
	}
	c10.Build = func(e *driver.Env) {
		if e.Plan.Twin != nil {
			e.Data = BuildTwin(e, "C10.a")
			return
		}
		build(e)
	}
	c10.Final = func(e *driver.Env) {
		if _, isTwin := e.Data.(*Twin); isTwin {
			EachTwin(e, c10FinalOneStage)
			return
		}
		final(e)
	}
}

// c10FinalOneStage judges one fork.Fold instance of a twin run.
func c10FinalOneStage(e *driver.Env) {
	s := e.Data.(*Sys)
	p := e.Plan
	s.NoPanic("C10.d")
	if e.Viol != nil || !e.Quiescent || !s.InputsClosed() {
		return
	}
	got := s.Out.Values()
	want := foldModel(p.Monoid, p.Inputs[0])
	if len(got) != 1 {
		e.Failf("C10.a", "fork.Fold did not deliver exactly one value", "par=%d monoid=%s input=%v (another fork.Fold alive next to it): delivered %v; tasks: %s", p.Par, p.Monoid, p.Inputs[0], got, driver.DescribeTasks(e.LibTasksAlive(nil)))
		return
	}
	if got[0] != want {
		e.Failf("C10.b", "fork.Fold result differs from the sequential left fold", "par=%d monoid=%s input=%v (another fork.Fold alive next to it): delivered %d, expected %d", p.Par, p.Monoid, p.Inputs[0], got[0], want)
		return
	}
	if !s.Out.Closed {
		e.Failf("C10.d", "result channel not closed after the value", "par=%d monoid=%s", p.Par, p.Monoid)
	}
}
