package pipeprops

import (
	"math"

	"verif/sim/driver"
)

// C05 — sequential stages emit exactly the list image of their input, in
// order, exactly once, then close — fault-free, under every capacity and
// interleaving (DESIGN §6.1).

var c05Stages = []string{"Map", "FMap", "Filter", "Take", "TakeWhile", "Partition", "Fold", "ForEach", "Void", "Seq", "ToSeq"}

func c05Plan(stage string, n, cap int) *driver.Plan {
	p := &driver.Plan{Prop: "C05", Stage: stage, Mode: "pure", Cap: cap, Inputs: [][]int{elems(0, n)}, CancelStep: -1, Monoid: "seq"}
	return p
}

func c05Gen(r *driver.Rand, thorough bool) *driver.Plan {
	stage := driver.Pick(r, c05Stages...)
	n := genLen(r, thorough)
	p := c05Plan(stage, n, genCap(r))
	p.Fn = r.Intn(60)
	p.FnArg = r.Intn(n + 2)
	if stage == "Take" {
		p.N = driver.Pick(r, 0, 1, n-1, n, n+1, r.Intn(n+3), math.MaxInt)
		if p.N < 0 {
			p.N = 0
		}
	}
	if stage == "Fold" && r.Chance(1, 3) {
		p.Monoid = driver.Pick(r, monoidNames...)
	}
	if r.Chance(1, 4) {
		p.Inputs[0] = genValues(r, n) // zeros, negatives, repeats
	}
	genSched(r, p)
	genEnvPaces(r, p, 1, 3)
	if r.Chance(1, 8) {
		p.SetX("uses", 2) // the stage is used twice in a row in one run
	} else if r.Chance(1, 6) {
		p.SetX("late_build", 1+r.Intn(12)) // the producer is running before the stage exists
	}
	// a stage that ends before its input does (Take after n elements,
	// TakeWhile at the first rejected element) closes its output then, not when
	// the input closes: the producer may keep its channel open for ever
	if stage == "Take" || stage == "TakeWhile" {
		m := modelOf(p)
		early := len(m.Out) < len(p.Inputs[0]) || (stage == "Take" && p.N <= len(p.Inputs[0]))
		if early && r.Chance(1, 2) {
			p.Producers[0].NoClose = true
		}
	}
	return p
}

func c05Enum(thorough bool) []*driver.Plan {
	var out []*driver.Plan
	maxLen := 3
	if thorough {
		maxLen = 5
	}
	for _, stage := range c05Stages {
		for _, cap := range []int{0, 1, 2, 5} {
			for n := 0; n <= maxLen; n++ {
				for _, pol := range basePolicies {
					variants := []*driver.Plan{c05Plan(stage, n, cap)}
					switch stage {
					case "Take":
						variants = nil
						for k := 0; k <= n+1; k++ {
							q := c05Plan(stage, n, cap)
							q.N = k
							variants = append(variants, q)
						}
					case "Filter", "TakeWhile", "Partition":
						variants = nil
						for fn := 0; fn < 5; fn++ {
							q := c05Plan(stage, n, cap)
							q.Fn, q.FnArg = fn, 1
							variants = append(variants, q)
						}
					case "FMap":
						variants = nil
						for fn := 0; fn < 4; fn++ {
							q := c05Plan(stage, n, cap)
							q.Fn = fn
							variants = append(variants, q)
						}
					}
					for _, q := range variants {
						q.Policy = pol
						q.Budget = 4000
						out = append(out, q)
					}
				}
			}
		}
	}
	return out
}

func c05BuildOne(e *driver.Env) {
	if prev, ok := e.Data.(*Sys); ok && prev != nil {
		if e.Shared == nil {
			e.Shared = map[string]any{}
		}
		e.Shared["prev"] = prev
		if prev.ToSeqDone {
			// the caller owns the returned slice: it scribbles over it; whatever
			// the next call does must not bring the old contents back
			for i := range prev.ToSeqRes {
				prev.ToSeqRes[i] = -1
			}
			prev.M.Out = append([]int(nil), prev.ToSeqRes...)
		}
	}
	e.Data = BuildStage(e, "C05.a")
}

func c05Build(e *driver.Env) { driver.Phased(e, c05BuildOne, c05Final) }

func c05Final(e *driver.Env) {
	s := e.Data.(*Sys)
	s.NoPanic("C05.e")
	if e.Viol != nil {
		return
	}
	if !e.Quiescent {
		return
	}
	p := e.Plan
	// C05.a: exactly the list image
	if s.Out != nil && !eqInts(s.Out.Values(), s.M.Out) {
		e.Failf("C05.a", "delivered sequence differs from the list image",
			"%s: delivered %v, list image %v (input %v)", p.Stage, s.Out.Values(), s.M.Out, p.Inputs)
		return
	}
	if s.Out2 != nil && !eqInts(s.Out2.Values(), s.M.Out2) {
		e.Failf("C05.a", "delivered sequence differs from the list image",
			"%s right side: delivered %v, list image %v", p.Stage, s.Out2.Values(), s.M.Out2)
		return
	}
	if p.Stage == "ToSeq" && (!s.ToSeqDone || !eqInts(s.ToSeqRes, s.M.Out)) {
		e.Failf("C05.a", "ToSeq result differs from its input", "ToSeq returned %v (done=%v), input %v", s.ToSeqRes, s.ToSeqDone, s.M.Out)
		return
	}
	// a slice returned by an earlier ToSeq call belongs to the caller: a later
	// use of the stage must not change it
	if prev, ok := e.Shared["prev"].(*Sys); ok && prev != s && prev.ToSeqDone && !eqInts(prev.ToSeqRes, prev.M.Out) {
		e.Failf("C05.a", "the slice returned by an earlier ToSeq call changed afterwards", "first call returned %v, now it reads %v", prev.M.Out, prev.ToSeqRes)
		return
	}
	// C05.c: Take consumes no more than n elements
	if s.M.MaxConsumed >= 0 && len(s.Prods) == 1 {
		consumed := s.Prods[0].Sent - len(s.InCh[0])
		if consumed > s.M.MaxConsumed {
			e.Failf("C05.c", "Take consumed more than n elements of its input",
				"Take n=%d removed %d elements from its input (sent %d, still buffered %d)", p.N, consumed, s.Prods[0].Sent, len(s.InCh[0]))
			return
		}
	}
	// C05.d: one visit per element, in order
	if s.M.Calls != nil || p.Stage == "ForEach" {
		var args []int
		for _, c := range s.Calls.List {
			args = append(args, c.Arg)
		}
		if !eqInts(args, s.M.Calls) {
			e.Failf("C05.d", "user function not applied exactly once per element in input order",
				"%s: function applied to %v, expected %v", p.Stage, args, s.M.Calls)
			return
		}
	}
	if p.Stage == "Void" && (s.Prods[0].Sent != len(p.Inputs[0]) || len(s.InCh[0]) != 0) {
		e.Failf("C05.d", "Void did not consume every element", "Void: %d of %d elements consumed", s.Prods[0].Sent-len(s.InCh[0]), len(p.Inputs[0]))
		return
	}
	// C05.b: outputs closed; goroutines gone once the inputs are closed too (a
	// stage that is done with an input that stays open — Take, TakeWhile — owes
	// the closed output, not its own exit: C06 ties the exit to closed inputs)
	if alive := e.LibTasksAlive(nil); len(alive) > 0 && s.InputsClosed() {
		e.Failf("C05.b", "library goroutine still alive after the stage finished",
			"%s: %s", p.Stage, driver.DescribeTasks(alive))
		return
	}
	for _, st := range s.streams() {
		if !st.closed {
			e.Failf("C05.b", "returned channel not closed after the last element",
				"%s: channel %s never closed", p.Stage, st.name)
			return
		}
	}
}

// Scenarios of the pipesim engine.
var Scenarios = map[string]*driver.Scenario{
	"C05": {Prop: "C05", Gen: c05Gen, Enum: c05Enum, Build: c05Build, Final: c05Final},
}
