package pipeprops

import (
	"fmt"
	"sort"
	"time"

	"github.com/anishathalye/porcupine"
	"github.com/fogfish/golem/pipe/v2"

	"verif/sim/driver"
	"verif/sim/simrt"
)

// C08 — the unbounded channel of pipe.New is FIFO, lossless, duplicate-free
// and never blocks senders (DESIGN §6.4).

type qop struct {
	client int
	send   bool
	v      int
	call   int64
	ret    int64 // 0: never returned
	ok     bool  // send: completed without panic; recv: a value (not close)
	panicV string
}

type c08State struct {
	e         *driver.Env
	ops       []*qop
	sent      [][]int // per sender: values whose send returned
	sentAt    [][]int64
	senderEnd []string // "", "done", "panic: …"
	recv      [][]int  // per receiver
	recvAll   []int    // in global receive order
	closedObs []bool   // receiver observed the close
	abandoned []bool
	closeSent bool  // the send side was closed by the environment
	cancelAt  int64 // logical time of the cancel (0: none)
	doneSend  int
	snd       chan<- int
	// incremental indexes for the online checks (constant work per receive:
	// some plans move tens of thousands of values)
	invoked  map[int]bool // values whose send was invoked
	recvCnt  map[int]int  // how often each value was received
	recvFrom map[int]int  // how many values of each sender were received
}

func c08Plan(cap int, senders [][]int, receivers int) *driver.Plan {
	p := &driver.Plan{Prop: "C08", Stage: "New", Cap: cap, Senders: senders, Receivers: receivers, CancelStep: -1}
	for i := 0; i < receivers; i++ {
		p.Consumers = append(p.Consumers, driver.ConsumerPlan{Abandon: -1})
	}
	for range senders {
		p.Producers = append(p.Producers, driver.ProducerPlan{})
	}
	return p
}

func c08Valid(p *driver.Plan) bool {
	return len(p.Senders) >= 1 && p.Receivers >= 1
}

func c08Gen(r *driver.Rand, thorough bool) *driver.Plan {
	ns := driver.Pick(r, 1, 1, 1, 2, 3)
	var senders [][]int
	total := 0
	for i := 0; i < ns; i++ {
		n := r.Intn(7)
		if thorough && r.Chance(1, 5) {
			n = r.Intn(30)
		}
		total += n
		senders = append(senders, elems(i, n))
	}
	if r.Chance(1, 60) {
		// a backlog of hundreds of values (queue growth and shrink thresholds,
		// chunk boundaries)
		senders = [][]int{elems(0, driver.Pick(r, 260, 300, 600, 64, 128, 256, 512, 1024))}
		total = len(senders[0])
		ns = 1
	}
	p := c08Plan(genCap(r), senders, driver.Pick(r, 1, 1, 1, 2))
	p.Producers = nil
	p.Consumers = nil
	genEnvPaces(r, p, ns, p.Receivers)
	// shapes: backlog grows, drains to empty, refills (node recycling)
	if r.Chance(1, 3) {
		for i := range p.Producers {
			p.Producers[i].DelaysMs = []int{0, 0, driver.Pick(r, 5, 20), 0}
		}
	}
	if r.Chance(1, 3) || total >= 64 {
		for i := range p.Consumers {
			p.Consumers[i].StartMs = driver.Pick(r, 5, 30, 100, 1500, 61000)
		}
	}
	if total >= 64 && len(senders) == 1 && r.Chance(2, 3) {
		// drain to empty, then refill
		p.Producers[0].DelaysMs = nil
		p.SetX("refill", 1)
		if r.Chance(1, 2) && total > 64 {
			// the backlog that drains to empty is a whole number of 64-value blocks
			p.SetX("refill_at", min(total-1, 64*(1+r.Intn(total/64))))
		}
	}
	for i := range p.Consumers {
		switch r.Intn(8) {
		case 0:
			p.Consumers[i].Abandon = 0 // never receives
		case 1:
			p.Consumers[i].Abandon = r.Intn(total + 1)
		}
	}
	switch r.Intn(8) {
	case 0, 1, 2:
		p.CancelStep = r.Intn(30 + 10*total)
	case 3:
		p.CancelMs = driver.Pick(r, 1, 7, 25, 60) + r.Intn(3)
	case 4, 5:
		p.CancelAtEnd = true
	}
	if r.Chance(1, 3) {
		p.SenderClose = true
	}
	p.PoolEvict = r.Chance(1, 4)
	genSched(r, p)
	return p
}

func c08Enum(thorough bool) []*driver.Plan {
	var out []*driver.Plan
	maxN := 4
	if thorough {
		maxN = 6
	}
	for _, cap := range []int{0, 1, 2, 5} {
		for n := 0; n <= maxN; n++ {
			for _, pol := range basePolicies {
				for variant := 0; variant < 6; variant++ {
					p := c08Plan(cap, [][]int{elems(0, n)}, 1)
					p.Policy, p.Budget = pol, 4000
					switch variant {
					case 0: // plain, cancel when everything is quiet
						p.CancelAtEnd = true
					case 1: // the sender closes the send side
						p.SenderClose = true
					case 2: // receiver never receives until the end: nothing may block the sender
						p.Consumers[0].Abandon = 0
					case 3: // cancel swept over every step, receiver keeps draining
						p.CancelAtEnd = true
						p.SetX("sweep_cancel", 1)
					case 4: // slow receiver: backlog builds up, then cancel sweep
						p.Consumers[0].StartMs = 50
						p.CancelAtEnd = true
						p.SetX("sweep_cancel", 1)
					case 5: // bursts: the queue drains to empty and refills
						p.Producers[0].DelaysMs = []int{0, 0, 10}
						p.SenderClose = true
					}
					out = append(out, p)
				}
			}
		}
	}
	// a backlog of tens of thousands of values behind a receiver that shows up
	// a minute later (a run of this size costs seconds, hence a fixed handful
	// rather than a random share)
	hugeCaps := []int{0, 8, 1}
	if thorough {
		hugeCaps = []int{0, 1, 8, 64}
	}
	for i, cap := range hugeCaps {
		p := c08Plan(cap, [][]int{elems(0, 66000+1500*i)}, 1)
		p.Policy, p.Budget = driver.PolRunBlock, 200
		if i%2 == 0 {
			p.Consumers[0].Abandon = 0 // a receiver that never receives: every send completes all the same
		} else {
			p.Consumers[0].StartMs = 61000
		}
		p.SetX("step_cap_x", 16)
		out = append(out, p)
	}
	return out
}

func c08Build(e *driver.Env) {
	p := e.Plan
	st := &c08State{e: e, invoked: map[int]bool{}, recvCnt: map[int]int{}, recvFrom: map[int]int{}}
	e.Data = st
	rcv, snd := pipe.New[int](e.Ctx, p.Cap)
	st.snd = snd
	ns := len(p.Senders)
	st.sent = make([][]int, ns)
	st.sentAt = make([][]int64, ns)
	st.senderEnd = make([]string, ns)
	st.recv = make([][]int, p.Receivers)
	st.closedObs = make([]bool, p.Receivers)
	st.abandoned = make([]bool, p.Receivers)

	for si := range p.Senders {
		si := si
		name := fmt.Sprintf("sender%d", si)
		pp := p.Producer(si)
		simrt.GoEnv(name, func() {
			defer func() {
				// a send on the closed send side (after cancel) panics: that is
				// the environment's problem, recorded, not a library panic
				if r := recover(); r != nil && !simrt.Free() {
					st.senderEnd[si] = fmt.Sprint("panic: ", r)
					e.Probe("sender_panicked_after_close")
				}
			}()
			if pp.StartMs > 0 {
				simrt.Sleep(name+".start", time.Duration(pp.StartMs)*time.Millisecond)
				e.Fault("producer_stall")
			}
			for i, v := range p.Senders[si] {
				at := len(p.Senders[si]) * 2 / 3
				if x := p.X("refill_at"); x > 0 {
					at = x
				}
				if p.X("refill") == 1 && i == at {
					// let the receiver drain the backlog to empty, then refill
					simrt.Sleep(name+".pause", 100*time.Second)
					e.Fault("producer_stall")
				}
				if len(pp.DelaysMs) > 0 {
					if d := pp.DelaysMs[i%len(pp.DelaysMs)]; d > 0 {
						simrt.Sleep(name+".stall", time.Duration(d)*time.Millisecond)
						e.Fault("producer_stall")
					}
				}
				op := &qop{client: si, send: true, v: v, call: e.Tick()}
				st.ops = append(st.ops, op)
				st.invoked[v] = true
				sel := simrt.Select(name+".send", false, simrt.Snd(snd, v), simrt.R(e.Abort))
				if simrt.Free() || sel.I == 1 {
					return
				}
				op.ret, op.ok = e.Tick(), true
				st.sent[si] = append(st.sent[si], v)
				st.sentAt[si] = append(st.sentAt[si], op.ret)
			}
			st.senderEnd[si] = "done"
			st.doneSend++
			if p.SenderClose && st.doneSend == ns {
				simrt.Yield(name + ".close")
				if simrt.Free() {
					return
				}
				e.Fault("sender_close")
				st.closeSent = true
				e.S.Note(name, "close(send side)")
				close(snd)
			}
		})
	}
	for ri := 0; ri < p.Receivers; ri++ {
		ri := ri
		name := fmt.Sprintf("receiver%d", ri)
		cp := p.Consumer(ri)
		drain := func() {
			for range rcv {
			}
		}
		simrt.GoEnv(name, func() {
			if cp.StartMs > 0 {
				simrt.Sleep(name+".start", time.Duration(cp.StartMs)*time.Millisecond)
				e.Fault("consumer_stall")
			}
			for i := 0; ; i++ {
				if cp.Abandon >= 0 && i >= cp.Abandon {
					st.abandoned[ri] = true
					e.Fault("consumer_abandon")
					simrt.Select(name+".abandoned", false, simrt.R(e.Abort))
					drain()
					return
				}
				if len(cp.DelaysMs) > 0 {
					if d := cp.DelaysMs[i%len(cp.DelaysMs)]; d > 0 {
						simrt.Sleep(name+".stall", time.Duration(d)*time.Millisecond)
						e.Fault("consumer_stall")
					}
				}
				op := &qop{client: 100 + ri, call: e.Tick()}
				sel := simrt.Select(name+".recv", false, simrt.R(rcv), simrt.R(e.Abort))
				if simrt.Free() || sel.I == 1 {
					drain()
					return
				}
				if !sel.OK {
					st.closedObs[ri] = true
					e.S.Note(name, "observed close")
					return
				}
				v := simrt.Val(rcv, sel)
				op.ret, op.ok, op.v = e.Tick(), true, v
				st.ops = append(st.ops, op)
				st.recv[ri] = append(st.recv[ri], v)
				st.recvAll = append(st.recvAll, v)
				c08Online(st, ri, v)
			}
		})
	}
	// remember the logical time of the cancel
	e.OnStep = func() {
		if st.cancelAt == 0 && e.Cancelled.Load() {
			st.cancelAt = e.Tick()
		}
	}
}

// c08Online: nothing but sent values, no duplicates, per-sender FIFO.
func c08Online(st *c08State, ri, v int) {
	e := st.e
	p := e.Plan
	si := v / stride
	idx := v % stride
	if v < 0 || si >= len(p.Senders) || idx >= len(p.Senders[si]) || p.Senders[si][idx] != v {
		e.Failf("C08.f", "received a value that was never sent", "received %d; senders %v", v, p.Senders)
		return
	}
	// was its send at least invoked?
	if !st.invoked[v] {
		e.Failf("C08.f", "received a value that was never sent", "received %d before any send of it was invoked", v)
		return
	}
	st.recvCnt[v]++
	n := st.recvCnt[v]
	cnt := st.recvFrom[si] // values of this sender received before this one
	st.recvFrom[si]++
	if n > 1 {
		e.Failf("C08.b", "a value was received twice", "value %d received %d times (received so far %v)", v, n, st.recvAll)
		return
	}
	if p.Receivers == 1 {
		// single receiver: values of one sender arrive in send order without gaps
		if idx != cnt {
			e.Failf("C08.b", "values of one sender received out of send order or with a gap",
				"received %d (index %d of sender %d) as that sender's value number %d; received so far %v", v, idx, si, cnt, st.recvAll)
		}
	}
}

func c08Final(e *driver.Env) {
	st := e.Data.(*c08State)
	p := e.Plan
	if ps := e.LibPanics(); len(ps) > 0 {
		e.Failf("C08.e", "library goroutine panicked: "+ps[0].Panic, "New cap=%d: %s [%s]", p.Cap, driver.DescribeTasks(ps), ps[0].Stack)
		return
	}
	if !e.Quiescent {
		return
	}
	cancelled := e.Cancelled.Load()
	// C08.a: a send never waits for the receiver
	if !cancelled {
		for si, items := range p.Senders {
			if len(st.sent[si]) != len(items) {
				e.Failf("C08.a", "a sender is blocked although the context is not cancelled (send waited for the receiver)",
					"cap=%d: sender %d completed %d of %d sends; receivers received %v (abandoned=%v)", p.Cap, si, len(st.sent[si]), len(items), st.recv, st.abandoned)
				return
			}
		}
	}
	anyDraining := false
	for ri := range st.recv {
		if !st.abandoned[ri] {
			anyDraining = true
		}
	}
	ended := cancelled || st.closeSent
	if !ended && anyDraining {
		// nothing ended the stream and a receiver keeps receiving: everything
		// whose send completed has arrived by now (no lost wake-up)
		got := map[int]bool{}
		for _, v := range st.recvAll {
			got[v] = true
		}
		for si := range st.sent {
			for _, v := range st.sent[si] {
				if !got[v] {
					e.Failf("C08.b", "a value whose send had completed is never delivered although the receiver keeps receiving",
						"cap=%d: value %d stuck; sent %v received %v (no cancel, no close); tasks: %s", p.Cap, v, st.sent, st.recvAll, driver.DescribeTasks(e.LibTasksAlive(nil)))
					return
				}
			}
		}
	}
	if ended && anyDraining {
		// completeness: every value whose send completed is delivered before
		// the receive side closes, and it does close
		got := map[int]bool{}
		for _, v := range st.recvAll {
			got[v] = true
		}
		for si := range st.sent {
			for k, v := range st.sent[si] {
				if !got[v] {
					clause, class := "C08.c", "a value whose send had completed was not delivered after cancel"
					if !cancelled {
						clause, class = "C08.d", "a value whose send had completed was not delivered after the send side was closed"
					} else if st.cancelAt != 0 && st.sentAt[si][k] > st.cancelAt {
						class = "a value whose send completed between cancel and the close of the send side was not delivered"
					}
					e.Failf(clause, class, "cap=%d: value %d (send completed) never received; sent %v received %v cancel=%v close=%v", p.Cap, v, st.sent, st.recvAll, cancelled, st.closeSent)
					return
				}
			}
		}
		for ri := range st.recv {
			if !st.abandoned[ri] && !st.closedObs[ri] {
				clause := "C08.c"
				if !cancelled {
					clause = "C08.d"
				}
				e.Failf(clause, "receive side never closed although the stream ended and the receiver kept receiving",
					"cap=%d: receiver %d still waiting; tasks: %s", p.Cap, ri, driver.DescribeTasks(e.LibTasksAlive(nil)))
				return
			}
		}
		if alive := e.LibTasksAlive(nil); len(alive) > 0 {
			e.Failf("C08.c", "pump goroutine still alive after the stream ended and was drained", "%s", driver.DescribeTasks(alive))
			return
		}
	}
}

// c08Post: linearizability of the recorded Send/Recv history against a
// sequential FIFO queue (porcupine). Runs outside the bubble.
func c08Post(e *driver.Env) {
	st := e.Data.(*c08State)
	got := map[int]bool{}
	for _, v := range st.recvAll {
		got[v] = true
	}
	var maxT int64
	for _, op := range st.ops {
		maxT = max(maxT, op.call, op.ret)
	}
	var hist []porcupine.Operation
	for _, op := range st.ops {
		if op.send {
			if !op.ok {
				// pending (blocked at the end, aborted, or panicked): it may or
				// may not have taken effect; it did iff its value was received
				if !got[op.v] {
					continue
				}
				hist = append(hist, porcupine.Operation{ClientId: op.client, Input: qin{send: true, v: op.v}, Call: op.call, Output: 0, Return: maxT + 1})
				continue
			}
			hist = append(hist, porcupine.Operation{ClientId: op.client, Input: qin{send: true, v: op.v}, Call: op.call, Output: 0, Return: op.ret})
		} else if op.ok {
			hist = append(hist, porcupine.Operation{ClientId: op.client, Input: qin{}, Call: op.call, Output: op.v, Return: op.ret})
		}
	}
	if len(hist) == 0 {
		return
	}
	if len(hist) > 24 {
		e.Probes["porcupine_skipped_long_history"]++
		return
	}
	res := porcupine.CheckOperationsTimeout(fifoModel, hist, 500*time.Millisecond)
	switch res {
	case porcupine.Illegal:
		sort.Slice(hist, func(i, j int) bool { return hist[i].Call < hist[j].Call })
		desc := ""
		for _, h := range hist {
			in := h.Input.(qin)
			if in.send {
				desc += fmt.Sprintf(" c%d:send(%d)[%d,%d]", h.ClientId, in.v, h.Call, h.Return)
			} else {
				desc += fmt.Sprintf(" c%d:recv->%d[%d,%d]", h.ClientId, h.Output, h.Call, h.Return)
			}
		}
		e.FailPost("C08.b", "history is not linearizable as a FIFO queue", "cap=%d:%s", e.Plan.Cap, desc)
	case porcupine.Unknown:
		e.Probes["porcupine_inconclusive"]++
	default:
		e.Probes["porcupine_checked"]++
	}
}

type qin struct {
	send bool
	v    int
}

var fifoModel = porcupine.Model{
	Init: func() interface{} { return []int(nil) },
	Step: func(state, input, output interface{}) (bool, interface{}) {
		q := state.([]int)
		in := input.(qin)
		if in.send {
			nq := make([]int, len(q)+1)
			copy(nq, q)
			nq[len(q)] = in.v
			return true, nq
		}
		if len(q) == 0 || q[0] != output.(int) {
			return false, q
		}
		return true, q[1:]
	},
	Equal: func(a, b interface{}) bool { return eqInts(a.([]int), b.([]int)) },
}

func init() {
	Scenarios["C08"] = &driver.Scenario{Prop: "C08", Gen: c08Gen, Enum: c08Enum, Build: c08Build, Final: c08Final, Post: c08Post, Valid: c08Valid}
}
