package pipeprops

import (
	"time"

	"verif/sim/driver"
)

// C13 — Throttling bounds the rate and keeps every element, in order
// (DESIGN §6.9). The bound is stated from the property text only: ops,
// interval and c = cap(in) are the caller's arguments.

func c13Plan(n, ops, intervalMs, cap int) *driver.Plan {
	p := &driver.Plan{Prop: "C13", Stage: "Throttling", N: ops, IntervalMs: intervalMs, Cap: cap, CancelStep: -1, Inputs: [][]int{elems(0, n)}}
	p.Producers = []driver.ProducerPlan{{}}
	p.Consumers = []driver.ConsumerPlan{{Abandon: -1}}
	return p
}

func c13Gen(r *driver.Rand, thorough bool) *driver.Plan {
	ops := driver.Pick(r, 1, 2, 3, 1+r.Intn(8))
	iv := driver.Pick(r, 10, 100, 1000, 1+r.Intn(40), 15, 25, 250)
	if r.Chance(1, 8) {
		iv = driver.Pick(r, 45000, 61000, 240000) // per-minute quotas: any fixed patience inside the stage is shorter
	}
	c := driver.Pick(r, 0, 1, 3, r.Intn(10))
	n := r.Intn(6*ops + 4)
	if thorough && r.Chance(1, 4) {
		n = r.Intn(60)
	}
	p := c13Plan(n, ops, iv, c)
	if r.Chance(1, 5) {
		// intervals that are not whole milliseconds (paces stay in ms, so
		// iv below is only the scale of the idle periods)
		p.IntervalMs = driver.Pick(r, 0, 1, 7)
		p.SetX("interval_us", driver.Pick(r, 1, 250, 500, 999))
		iv = p.IntervalMs + 1
	}
	if r.Chance(1, 25) {
		// degenerate intervals: zero, one nanosecond
		p.IntervalMs = 0
		p.Extra = nil
		if r.Chance(1, 2) {
			p.SetX("interval_ns", 1)
		}
		iv = 1
	}
	if r.Chance(1, 4) {
		p.Inputs[0] = genValues(r, n)
	}
	switch r.Intn(5) {
	case 0: // (i) input always available, consumer always ready
	case 1: // (ii) no consumer for a while, then it saturates: the burst after an idle period
		p.Consumers[0].StartMs = iv*(1+r.Intn(4)) + r.Intn(iv)
	case 2: // (ii) no input for a while, then a burst
		p.Producers[0].StartMs = iv*(1+r.Intn(4)) + r.Intn(iv)
	case 3: // idle in the middle
		p.Producers[0].DelaysMs = []int{0, 0, 0, iv * (2 + r.Intn(3)), 0, 0}
		if r.Chance(1, 2) {
			p.Consumers[0].DelaysMs = []int{0, 0, 0, 0, iv*2 + r.Intn(iv), 0, 0, 0}
		}
	default: // (iii) random arrival and receive paces
		for i := 0; i < 1+r.Intn(4); i++ {
			p.Producers[0].DelaysMs = append(p.Producers[0].DelaysMs, driver.Pick(r, 0, 0, 1, iv/3, iv, 2*iv+1))
			p.Consumers[0].DelaysMs = append(p.Consumers[0].DelaysMs, driver.Pick(r, 0, 0, 1, iv/2, iv+1))
		}
	}
	if r.Chance(1, 10) {
		// a pause of more than a minute, on either side
		if r.Chance(1, 2) {
			p.Producers[0].DelaysMs = []int{0, 0, driver.Pick(r, 61000, 125000), 0, 0, 0, 0, 0}
		} else {
			p.Consumers[0].DelaysMs = []int{0, 0, 0, driver.Pick(r, 61000, 125000), 0, 0, 0, 0, 0, 0}
		}
	}
	switch r.Intn(8) {
	case 0:
		p.CancelStep = r.Intn(40 + 12*n)
	case 1:
		p.CancelMs = iv*r.Intn(n/ops+2) + 1 + r.Intn(iv)
		if r.Chance(1, 4) {
			p.CancelMs = iv * (1 + r.Intn(n/ops+2)) // exactly on an interval boundary: two events in one instant
		}
	case 2:
		p.CancelAtEnd = true
	}
	if p.CancelStep < 0 && p.CancelMs == 0 && !p.CancelAtEnd && r.Chance(1, 6) {
		p.SetX("uses", 2)
		p.SetX("cancel_between", 1) // used, cancelled, used again under a new context
	}
	if p.CancelMs > 0 && r.Chance(1, 2) {
		p.SetX("ctx_deadline", 1) // the context carries a deadline (cancelled one nanosecond before it)
	}
	genSched(r, p)
	return p
}

func c13Enum(thorough bool) []*driver.Plan {
	var out []*driver.Plan
	maxOps := 2
	if thorough {
		maxOps = 3
	}
	for ops := 1; ops <= maxOps; ops++ {
		for _, c := range []int{0, 1, 3} {
			for _, n := range []int{0, 1, 2*ops + 1, 4*ops + c + 3} {
				for _, pol := range basePolicies {
					for variant := 0; variant < 4; variant++ {
						p := c13Plan(n, ops, 10, c)
						p.Policy, p.Budget = pol, 4000
						p.CancelAtEnd = true
						switch variant {
						case 1: // consumer arrives after two and a half intervals
							p.Consumers[0].StartMs = 25
						case 2: // input arrives after two and a half intervals
							p.Producers[0].StartMs = 25
						case 3: // slow consumer
							p.Consumers[0].DelaysMs = []int{7}
						}
						out = append(out, p)
					}
				}
			}
		}
	}
	return out
}

func c13BuildOne(e *driver.Env) { e.Data = BuildStage(e, "C13.a") }

func c13Build(e *driver.Env) {
	if e.Plan.X("cancel_between") == 1 {
		driver.Phased(e, c13BuildOne, c13Final)
		return
	}
	c13BuildOne(e) // no second use without a cancel: the first pacer lives until then
}

func c13Final(e *driver.Env) {
	s := e.Data.(*Sys)
	p := e.Plan
	s.NoPanic("C13.a")
	if e.Viol != nil {
		return
	}
	iv := planInterval(p)
	ops, c := p.N, p.Cap
	// deliveries before the cancellation
	var ts []time.Duration
	for _, o := range s.Out.Got {
		if e.Cancelled.Load() && o.Seq >= e.CancelSeq {
			break
		}
		ts = append(ts, o.VT-s.Start) // time 0 is the call of Throttling
	}
	// C13.b: no window of length interval sees more than 2*ops+1+c deliveries
	w := 2*ops + 1 + c
	maxIn := 0
	for i := range ts {
		if i+w < len(ts) && ts[i+w]-ts[i] < iv {
			e.Failf("C13.b", "more than 2*ops+1+c deliveries within one interval",
				"ops=%d interval=%v c=%d: deliveries %d..%d at %v..%v (%d deliveries within %v); all times %v",
				ops, iv, c, i, i+w, ts[i], ts[i+w], w+1, ts[i+w]-ts[i], ts)
			return
		}
		// statistics: how close do the workloads get to the bound
		k := 0
		for j := i; j < len(ts) && ts[j]-ts[i] < iv; j++ {
			k++
		}
		maxIn = max(maxIn, k)
	}
	if maxIn == w {
		e.Probe("burst_reached_the_bound_exactly")
	}
	if maxIn > ops {
		e.Probe("burst_above_ops")
	}
	// C13.c: input always available and consumer always ready
	pp, cp := p.Producer(0), p.Consumer(0)
	saturated := pp.StartMs == 0 && cp.StartMs == 0 && pp.CloseMs == 0
	for _, d := range pp.DelaysMs {
		saturated = saturated && d == 0
	}
	for _, d := range cp.DelaysMs {
		saturated = saturated && d == 0
	}
	if saturated {
		for i, t := range ts {
			lo := time.Duration(i/ops) * iv
			if t < lo || t > lo+iv {
				e.Failf("C13.c", "with input always available and the consumer always ready an element was delivered outside its interval",
					"ops=%d interval=%v c=%d: element %d delivered at %v, expected within [%v, %v]; all times %v", ops, iv, c, i, t, lo, lo+iv, ts)
				return
			}
		}
		e.Probe("saturated_schedule_checked")
	}
	if !e.Quiescent {
		return
	}
	// C13.a: exactly the input, in order (prefix was checked online), closes
	// when the input closes
	if !e.Cancelled.Load() && s.InputsClosed() && s.AllDrained() {
		if !eqInts(s.Out.Values(), s.M.Out) {
			e.Failf("C13.a", "delivered sequence differs from the input", "delivered %v, input %v", s.Out.Values(), s.M.Out)
			return
		}
	}
	s.Closure("C13.a", "C13.a")
}

func init() {
	Scenarios["C13"] = &driver.Scenario{Prop: "C13", Gen: c13Gen, Enum: c13Enum, Build: c13Build, Final: c13Final}
}
