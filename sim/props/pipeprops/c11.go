package pipeprops

import (
	"time"

	"verif/sim/driver"
)

// C11 — Unfold and Emit produce the exact successive sequence, paced, until
// cancelled (DESIGN §6.7). Time is the bubble's virtual clock; computation
// costs nothing.

func c11Base(stage string, cap, take int) *driver.Plan {
	p := &driver.Plan{Prop: "C11", Stage: stage, Mode: "pure", Cap: cap, CancelStep: -1, CancelAtEnd: true}
	p.Consumers = []driver.ConsumerPlan{{Abandon: take}, {Abandon: -1}, {Abandon: -1}}
	if stage == "Emit" {
		p.IntervalMs = 10
	} else {
		p.FnArg = 2
	}
	return p
}

func c11Valid(p *driver.Plan) bool {
	q := *p
	q.Prop = "C06"
	return c06Valid(&q) && p.IntervalMs >= 0
}

func c11Gen(r *driver.Rand, thorough bool) *driver.Plan {
	stage := driver.Pick(r, "Emit", "Unfold")
	take := r.Intn(9)
	if thorough && r.Chance(1, 4) {
		take = r.Intn(40)
	}
	p := c11Base(stage, genCap(r), take)
	p.Fn = r.Intn(60)
	if stage == "Emit" {
		p.IntervalMs = driver.Pick(r, 1, 10, 1000, 1+r.Intn(40), 15, 25, 1234)
		if r.Chance(1, 30) {
			p.IntervalMs = 0 // frequency zero (or one nanosecond): no pacing at all
			if r.Chance(1, 2) {
				p.SetX("interval_ns", 1)
			}
		} else if r.Chance(1, 5) {
			// frequencies that are not whole milliseconds
			p.IntervalMs = driver.Pick(r, 0, 1, 2)
			p.SetX("interval_us", driver.Pick(r, 1, 250, 500, 999))
		}
		if r.Chance(1, 3) {
			p.Mode = "try"
			for i := 0; i < take+3; i++ {
				if r.Chance(1, 3) {
					p.FailAt = append(p.FailAt, i)
				}
			}
		} else if r.Chance(1, 6) {
			p.Mode = "lift" // ends with the first failure: values before it, then both channels close
			p.FailAt = []int{r.Intn(take + 2)}
		}
	} else {
		p.FnArg = r.Intn(50)
		if r.Chance(1, 6) {
			p.Mode = "lift"
			p.FailAt = []int{r.Intn(take + 2)}
		}
	}
	if p.Mode == "lift" {
		switch r.Intn(3) {
		case 0:
			p.Consumers[2].StartMs = 5000 // the error reader shows up late
		case 1:
			p.Consumers[2].Abandon = 0 // nobody ever reads the error channel
		}
	}
	if p.Mode != "pure" && r.Chance(1, 4) {
		p.SetX("err_kind", 1+r.Intn(5))
	}
	// consumer receive schedules on the virtual clock
	c := &p.Consumers[0]
	f := max(p.IntervalMs, 1)
	switch r.Intn(5) {
	case 0: // always ready
	case 1: // fixed slower pace
		c.DelaysMs = []int{f * driver.Pick(r, 2, 3)}
	case 2: // a burst after a long stall: back-pressure with a full buffer
		c.StartMs = f * (2 + r.Intn(8))
	case 3: // stalls in the middle
		c.DelaysMs = []int{0, 0, f * (1 + r.Intn(6)), 0}
	default: // random
		for i := 0; i < 1+r.Intn(4); i++ {
			c.DelaysMs = append(c.DelaysMs, driver.Pick(r, 0, 1, f/2, f, 2*f+1))
		}
	}
	// cancel: by step, by virtual time, or once the consumer has walked away
	switch r.Intn(4) {
	case 0:
		p.CancelStep = r.Intn(20 + 10*take)
	case 1:
		if stage == "Emit" {
			p.CancelMs = f*r.Intn(take+2) + r.Intn(f+1)
			if p.CancelMs == 0 {
				p.CancelMs = 1
			}
		}
	}
	if p.CancelMs > 0 && r.Chance(1, 2) {
		p.SetX("ctx_deadline", 1) // the context carries a deadline (cancelled one nanosecond before it)
	}
	if r.Chance(1, 6) && p.Consumers[0].Abandon >= 0 && (p.CancelStep >= 0 || p.CancelMs > 0) {
		slow := false
		for _, d := range c.DelaysMs {
			slow = slow || d > 0
		}
		if stage == "Emit" || slow || p.CancelStep >= 0 {
			c.Abandon = -1 // keeps receiving until the close
		}
	}
	if r.Chance(1, 8) {
		p.SetX("late_build", 1+r.Intn(12)) // the context may be cancelled before the generator exists
	}
	genSched(r, p)
	if p.Policy == driver.PolLowest || p.Policy == driver.PolRunBlock {
		p.Budget = 300
	}
	// keep the run finite in steps, not only in virtual time: a timer-based
	// cancel must not be thousands of ticks away
	if fr := planInterval(p); stage == "Emit" && p.CancelMs > 0 && fr > 0 && time.Duration(p.CancelMs)*time.Millisecond/fr > 1500 {
		p.CancelMs = 0
		p.CancelStep = r.Intn(20 + 10*take)
	}
	if !c11Valid(p) {
		p.CancelStep = r.Intn(40)
	}
	return p
}

func c11Enum(thorough bool) []*driver.Plan {
	var out []*driver.Plan
	maxTake := 4
	if thorough {
		maxTake = 7
	}
	for _, stage := range []string{"Emit", "Unfold"} {
		for _, cap := range caps {
			for take := 0; take <= maxTake; take++ {
				for _, pol := range basePolicies {
					for pace := 0; pace < 3; pace++ {
						p := c11Base(stage, cap, take)
						p.Policy, p.Budget = pol, 4000
						switch pace {
						case 1:
							p.Consumers[0].DelaysMs = []int{25}
						case 2:
							p.Consumers[0].StartMs = 55
						}
						p.SetX("sweep_cancel", 1)
						out = append(out, p)
					}
				}
			}
		}
	}
	return out
}

func c11Build(e *driver.Env) { e.Data = BuildStage(e, "C11.a") }

func c11Final(e *driver.Env) {
	s := e.Data.(*Sys)
	p := e.Plan
	s.NoPanic("C11.d")
	if e.Viol != nil {
		return
	}
	if p.Stage == "Emit" {
		freq := planInterval(p)
		// C11.b: the function is called at most once per tick …
		for i, c := range s.Calls.List {
			// … and never twice within one period: two calls are at least one
			// frequency apart
			if i > 0 && c.VT-s.Calls.List[i-1].VT < freq {
				e.Failf("C11.b", "Emit called its function twice within one frequency tick",
					"frequency %v: calls %d and %d at %v and %v", freq, i, i+1, s.Calls.List[i-1].VT, c.VT)
				return
			}
			// (when within its period a call happens is Emit's business: only
			// the availability of the value is tied to the tick count, below)
		}
		// … so the k-th value (counting from 1) is never available before k ticks
		for k, o := range s.Out.Got {
			if o.VT < time.Duration(k+1)*freq {
				e.Failf("C11.b", "a value was available before its tick",
					"frequency %v: value number %d received at %v, before %v", freq, k+1, o.VT, time.Duration(k+1)*freq)
				return
			}
		}
		// C11.c: a consumer that keeps up receives one value per tick
		c := p.Consumer(0)
		ready := c.StartMs == 0
		for _, d := range c.DelaysMs {
			ready = ready && d == 0
		}
		if ready && len(p.FailAt) == 0 {
			for k, o := range s.Out.Got {
				if e.Cancelled.Load() && o.VT >= e.CancelVT {
					break
				}
				if want := time.Duration(k+1) * freq; o.VT != want {
					e.Failf("C11.c", "an always-ready consumer did not receive one value per tick",
						"frequency %v cap=%d: value number %d received at %v, expected %v", freq, p.Cap, k+1, o.VT, want)
					return
				}
			}
			e.Probe("emit_ready_consumer_exact_ticks")
		}
	}
	// C11.a: the sequence goes on until cancelled: a generator may only end on
	// its own after a fail-fast error
	endsItself := p.Mode == "lift" && firstFail(p, 1<<30) >= 0
	if s.Out != nil && s.Out.Closed && !endsItself && (!e.Cancelled.Load() || s.Out.CloseSeq < e.CancelSeq) {
		e.Failf("C11.a", "generator ended before it was cancelled", "%s/%s fail_at=%v: output closed at step %d after %d values, no cancel before that", p.Stage, p.Mode, p.FailAt, s.Out.CloseSeq, len(s.Out.Got))
		return
	}
	if !e.Quiescent {
		return
	}
	// C11.a: no gap at the end either — a generator that a fail-fast error
	// ended (nobody cancelled, the consumer took everything up to the close)
	// has delivered every value computed before the failure
	if endsItself && s.Out != nil && s.Out.Closed && !s.Out.Abandoned && (!e.Cancelled.Load() || s.Out.CloseSeq < e.CancelSeq) && s.M.InfMax >= 0 && len(s.Out.Got) != s.M.InfMax {
		e.Failf("C11.a", "generator ended by a fail-fast error did not deliver every value computed before the failure", "%s/lift fail_at=%v: %d values delivered before the close, %d computed", p.Stage, p.FailAt, len(s.Out.Got), s.M.InfMax)
		return
	}
	// C11.d: both stop and close their channels after cancel
	s.Closure("C11.d", "C11.d")
}

func init() {
	Scenarios["C11"] = &driver.Scenario{Prop: "C11", Gen: c11Gen, Enum: c11Enum, Build: c11Build, Final: c11Final, Valid: c11Valid}
}
