package pipeprops

import (
	"sort"

	"verif/sim/driver"
)

// C07 — fail-fast (Lift/LiftF) and try-and-continue (Try/TryF) behave as
// documented for every pattern of failing positions (DESIGN §6.3). The fault
// is the user function returning an error; the error channel is always read.

type stageMode struct{ stage, mode string }

var c07Pairs = []stageMode{{"Map", "lift"}, {"Map", "try"}, {"FMap", "lift"}, {"FMap", "try"}, {"Emit", "lift"}, {"Emit", "try"}, {"Unfold", "lift"}}

func c07Base(sm stageMode, n, cap int, fail []int) *driver.Plan {
	p := &driver.Plan{Prop: "C07", Stage: sm.stage, Mode: sm.mode, Cap: cap, CancelStep: -1, FailAt: fail}
	p.Consumers = []driver.ConsumerPlan{{Abandon: -1}, {Abandon: -1}, {Abandon: -1}}
	switch sm.stage {
	case "Emit":
		p.IntervalMs = 10
		p.Consumers[0].Abandon = n // takes n values, then walks away; the run is then cancelled
		p.CancelAtEnd = true
	case "Unfold":
		p.FnArg = 5
		p.Consumers[0].Abandon = n
		p.CancelAtEnd = true
	default:
		p.Inputs = [][]int{elems(0, n)}
	}
	return p
}

func c07Valid(p *driver.Plan) bool {
	if isGenerator(p.Stage) {
		if p.Consumer(0).Abandon < 0 && !(p.Mode == "lift" && len(p.FailAt) > 0) {
			return false
		}
		if !p.CancelAtEnd {
			return false
		}
	}
	if p.CancelStep >= 0 || p.CancelMs > 0 {
		return false
	}
	return true
}

func subsets(n int) [][]int {
	var out [][]int
	for m := 0; m < 1<<n; m++ {
		var s []int
		for i := 0; i < n; i++ {
			if m&(1<<i) != 0 {
				s = append(s, i)
			}
		}
		out = append(out, s)
	}
	return out
}

func c07Enum(thorough bool) []*driver.Plan {
	var out []*driver.Plan
	maxN := 4
	pols := []string{driver.PolRunBlock, driver.PolEnvFirst, driver.PolLibFirst, driver.PolRR}
	if thorough {
		maxN = 6
	}
	for _, sm := range c07Pairs {
		for n := 0; n <= maxN; n++ {
			for _, fail := range subsets(n) {
				for _, cap := range []int{0, 1, 2} {
					for _, pol := range pols {
						for order := 0; order < 3; order++ {
							p := c07Base(sm, n, cap, fail)
							p.Policy = pol
							p.Budget = 4000
							switch order {
							case 1: // values first: the error reader shows up late
								p.Consumers[2].StartMs = 500
							case 2: // errors first
								p.Consumers[0].StartMs = 500
							}
							out = append(out, p)
						}
					}
				}
			}
		}
	}
	return out
}

func c07Gen(r *driver.Rand, thorough bool) *driver.Plan {
	sm := driver.Pick(r, c07Pairs...)
	n := genLen(r, thorough)
	var fail []int
	switch r.Intn(6) {
	case 0: // none
	case 1: // first
		fail = []int{0}
	case 2: // last
		fail = []int{max(n-1, 0)}
	case 3: // all
		for i := 0; i < n; i++ {
			fail = append(fail, i)
		}
	case 4: // sparse
		for i := 0; i < n; i++ {
			if r.Chance(1, 5) {
				fail = append(fail, i)
			}
		}
	default: // dense
		for i := 0; i < n; i++ {
			if r.Chance(1, 2) {
				fail = append(fail, i)
			}
		}
	}
	p := c07Base(sm, n, genCap(r), fail)
	p.Fn = r.Intn(60)
	if sm.stage == "Emit" {
		p.IntervalMs = driver.Pick(r, 1, 10, 100, 0)
	}
	if sm.stage == "Unfold" {
		p.FnArg = r.Intn(40)
	}
	if r.Chance(1, 5) {
		p.SetX("stderr", 1)
	}
	if r.Chance(1, 3) {
		p.SetX("err_kind", 1+r.Intn(5)) // the failures wrap context.Canceled / DeadlineExceeded
	}
	cons := p.Consumers
	p.Consumers = nil
	genEnvPaces(r, p, len(p.Inputs), 3)
	for i := range p.Consumers {
		p.Consumers[i].Abandon = cons[i].Abandon
	}
	if r.Chance(1, 4) {
		p.FnYields = 1 + r.Intn(2)
	}
	if r.Chance(1, 6) {
		p.FnStallMs = []int{driver.Pick(r, 0, 1, 60), driver.Pick(r, 0, 60, 200)}
	}
	genSched(r, p)
	if !isGenerator(sm.stage) && r.Chance(1, 8) {
		p.SetX("uses", 2)
	}
	// a sequential reader: drains the error channel until it closes and looks at
	// the values only then — fine as long as the values fit into the buffer
	if !isGenerator(sm.stage) && p.X("stderr") == 0 && p.Cap >= 1 && len(modelOf(p).Out) <= p.Cap && r.Chance(1, 3) {
		p.Consumers[0].AfterClosed = "consumer.err"
		p.Consumers[0].StartMs = 0
	}
	// Deliberately not drawn: a reader that drains the values to the end before
	// it looks at the error channel. The library's fail-fast error channel has
	// room for the one error, so such a reader works with it — but C07 only
	// promises termination "provided the error channel is read", and an
	// implementation that hands the error over synchronously keeps that promise
	// too. (C06 does demand termination after cancel with nobody reading.)
	// fail-fast ends the stage at the first failure, whatever the producer
	// does afterwards: it may well keep its channel open for ever
	if !isGenerator(sm.stage) && sm.mode == "lift" && firstFail(p, n) >= 0 && p.X("uses") == 0 && r.Chance(1, 3) {
		p.Producers[0].NoClose = true
	}
	return p
}

func c07BuildOne(e *driver.Env) { e.Data = BuildStage(e, "C07") }

func c07Build(e *driver.Env) { driver.Phased(e, c07BuildOne, c07Final) }

func c07Final(e *driver.Env) {
	s := e.Data.(*Sys)
	p := e.Plan
	s.NoPanic("C07.h")
	if e.Viol != nil || !e.Quiescent {
		return
	}
	var args []int
	for _, c := range s.Calls.List {
		args = append(args, c.Arg)
	}
	gen := isGenerator(p.Stage)
	n := 0
	if len(p.Inputs) > 0 {
		n = len(p.Inputs[0])
	}
	var errIDs []int
	if s.Err != nil {
		for _, o := range s.Err.Got {
			if id := errID(o.V); !s.afterCancelNote(id, o.Seq) {
				errIDs = append(errIDs, id)
			}
		}
	}
	if !gen {
		// finite stages: exact equality, whatever the failure pattern
		if !eqInts(s.Out.Values(), s.M.Out) {
			clause := "C07.e"
			if p.Mode == "lift" {
				clause = "C07.a"
			}
			e.Failf(clause, "delivered values differ from the documented result for this failure pattern",
				"%s/%s fail_at=%v: values %v, expected %v", p.Stage, p.Mode, p.FailAt, s.Out.Values(), s.M.Out)
			return
		}
		if s.Err != nil && !eqInts(errIDs, s.M.Errs) {
			clause := "C07.f"
			if p.Mode == "lift" {
				clause = "C07.b"
			}
			e.Failf(clause, "delivered errors differ from the documented result for this failure pattern",
				"%s/%s fail_at=%v: errors %v, expected %v", p.Stage, p.Mode, p.FailAt, errIDs, s.M.Errs)
			return
		}
		if !eqInts(args, s.M.Calls) {
			e.Failf("C07.c", "user function applied to other elements than documented (processing continued after a fail-fast error, or an element was skipped or repeated)",
				"%s/%s fail_at=%v: function applied to %v, expected %v", p.Stage, p.Mode, p.FailAt, args, s.M.Calls)
			return
		}
		ended := s.InputsClosed() || (p.Mode == "lift" && firstFail(p, n) >= 0)
		if ended {
			c07Closed(s)
		}
		return
	}
	// generators
	ff := firstFail(p, 1<<30)
	if p.Mode == "lift" && ff >= 0 && s.M.InfMax <= p.Consumer(0).Abandon || (p.Mode == "lift" && ff >= 0 && p.Consumer(0).Abandon < 0) {
		// the fail-fast error ends the generator before the consumer walks away
		want := make([]int, s.M.InfMax)
		for k := range want {
			want[k] = s.M.Inf(k)
		}
		if !eqInts(s.Out.Values(), want) {
			e.Failf("C07.a", "delivered values differ from the documented result for this failure pattern",
				"%s/lift fail_at=%v: values %v, expected %v", p.Stage, p.FailAt, s.Out.Values(), want)
			return
		}
		if s.Err != nil && !eqInts(errIDs, s.M.Errs) {
			e.Failf("C07.b", "delivered errors differ from the documented result for this failure pattern",
				"%s/lift fail_at=%v: errors %v, expected %v", p.Stage, p.FailAt, errIDs, s.M.Errs)
			return
		}
		if len(args) != ff+1 {
			e.Failf("C07.c", "user function applied to other elements than documented (processing continued after a fail-fast error, or an element was skipped or repeated)",
				"%s/lift fail_at=%v: %d calls, expected %d", p.Stage, p.FailAt, len(args), ff+1)
			return
		}
		c07Closed(s)
		return
	}
	// under Try a generator goes on after a failure: it ends only when cancelled
	if s.Out.Closed && (!e.Cancelled.Load() || s.Out.CloseSeq < e.CancelSeq) {
		e.Failf("C07.g", "generator ended although no fail-fast error occurred and nobody cancelled it", "%s/%s fail_at=%v: output closed after %d values", p.Stage, p.Mode, p.FailAt, len(s.Out.Got))
		return
	}
	// cancelled generators: value prefix was checked online; every failure that
	// precedes the last delivered value must have produced its error
	if s.Err != nil && p.Mode == "try" && len(s.Out.Got) > 0 {
		fails := append([]int(nil), p.FailAt...)
		sort.Ints(fails)
		// call index of the k-th delivered value
		k := len(s.Out.Got) - 1
		idx := 0
		fs := failSet(p)
		for seen := 0; ; idx++ {
			if fs[idx] {
				continue
			}
			if seen == k {
				break
			}
			seen++
		}
		var must []int
		for _, f := range fails {
			if f < idx && (len(must) == 0 || must[len(must)-1] != f) {
				must = append(must, f)
			}
		}
		if p.X("err_kind") == 3 {
			for i := range must {
				must[i] = sentinelID
			}
		}
		if len(errIDs) < len(must) || !eqInts(errIDs[:len(must)], must) {
			e.Failf("C07.f", "delivered errors differ from the documented result for this failure pattern",
				"%s/try fail_at=%v: %d values delivered (last from call %d) but errors %v, expected at least %v", p.Stage, p.FailAt, len(s.Out.Got), idx, errIDs, must)
			return
		}
	}
	s.Closure("C07.g", "C07.d")
}

// c07Closed: both channels closed and every library goroutine gone.
func c07Closed(s *Sys) {
	e := s.E
	if alive := e.LibTasksAlive(nil); len(alive) > 0 {
		e.Failf("C07.d", "stage did not terminate although the error channel was read",
			"%s/%s fail_at=%v: %s", s.P.Stage, s.P.Mode, s.P.FailAt, driver.DescribeTasks(alive))
		return
	}
	for _, st := range s.streams() {
		if !st.closed && !st.abandoned {
			e.Failf("C07.d", "channel not closed after the stage ended",
				"%s/%s fail_at=%v: channel %s never closed", s.P.Stage, s.P.Mode, s.P.FailAt, st.name)
			return
		}
	}
}

func init() {
	Scenarios["C07"] = &driver.Scenario{Prop: "C07", Gen: c07Gen, Enum: c07Enum, Build: c07Build, Final: c07Final, Valid: c07Valid}
}
