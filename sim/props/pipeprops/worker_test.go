package pipeprops

import (
	"os"
	"testing"

	"verif/sim/driver"
)

// TestWorker is the entry point of the simulation worker binary; cmd/check
// builds this package with `go test -c` against the instrumented scratch copy
// of /repo and runs it once per worker with the job in VERIF_JOB.
func TestWorker(t *testing.T) {
	if os.Getenv("VERIF_JOB") == "" {
		t.Skip("not started by cmd/check")
	}
	initTwins()
	for _, prop := range []string{"C05", "C07", "C08", "C09", "C12", "C13"} {
		withTyped(Scenarios[prop])
	}
	driver.RunWorker(t, Scenarios)
}

// withTyped mixes the typed variants (typed.go) into a property's scenario:
// about one random plan in twenty-five runs the property's stages over another
// element type.
func withTyped(sc *driver.Scenario) {
	gen, build, final, valid, post := sc.Gen, sc.Build, sc.Final, sc.Valid, sc.Post
	prop := sc.Prop
	sc.Gen = func(r *driver.Rand, thorough bool) *driver.Plan {
		if r.Chance(1, 25) {
			return genTyped(r, prop)
		}
		return gen(r, thorough)
	}
	sc.Build = func(e *driver.Env) {
		if e.Plan.Stage == "typed" {
			typedBuild(e)
			return
		}
		build(e)
	}
	sc.Final = func(e *driver.Env) {
		if e.Plan.Stage == "typed" {
			typedFinal(e)
			return
		}
		final(e)
	}
	if valid != nil {
		sc.Valid = func(p *driver.Plan) bool { return p.Stage == "typed" || valid(p) }
	}
	if post != nil {
		sc.Post = func(e *driver.Env) {
			if e.Plan.Stage != "typed" {
				post(e)
			}
		}
	}
}
