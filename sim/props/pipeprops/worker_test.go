package pipeprops

import (
	"os"
	"testing"

	"verif/sim/driver"
)

// TestWorker is the entry point of the simulation worker binary; cmd/check
// builds this package with `go test -c` against the instrumented scratch copy
// of /repo and runs it once per worker with the job in VERIF_JOB.
func TestWorker(t *testing.T) {
	if os.Getenv("VERIF_JOB") == "" {
		t.Skip("not started by cmd/check")
	}
	driver.RunWorker(t, Scenarios)
}
