package pipeprops

import (
	"verif/sim/driver"
)

// C06 — stages always close, terminate on cancel, never leak or panic
// (DESIGN §6.2). Faults: cancel at every point, consumers that walk away,
// inputs that never close, stalls, select arbitration.

var c06Stages = []string{"Emit", "Unfold", "Map", "FMap", "Filter", "ForEach", "Void", "Fold", "Partition", "Join", "Take", "TakeWhile", "Throttling", "StdErr"}

func isGenerator(stage string) bool { return stage == "Emit" || stage == "Unfold" }

func nConsumers(stage string) int {
	switch stage {
	case "Map", "FMap", "Emit", "Unfold", "Partition":
		return 3 // out, (out2), err — indices are fixed: 0 out, 1 out2, 2 err
	}
	return 1
}

func c06Base(stage string, n, cap int) *driver.Plan {
	p := &driver.Plan{Prop: "C06", Stage: stage, Mode: "pure", Cap: cap, CancelStep: -1, Monoid: "seq"}
	switch stage {
	case "Join":
		// n elements spread over two inputs (n=0: no input at all)
		switch {
		case n == 0:
			p.Inputs = [][]int{}
		case n == 1:
			p.Inputs = [][]int{elems(0, 1)}
		default:
			p.Inputs = [][]int{elems(0, n/2), elems(1, n-n/2)}
		}
	case "Emit":
		p.IntervalMs = 10
		p.Consumers = []driver.ConsumerPlan{{Abandon: n}, {Abandon: -1}, {Abandon: -1}}
	case "Unfold":
		p.FnArg = 3
		p.Consumers = []driver.ConsumerPlan{{Abandon: n}, {Abandon: -1}, {Abandon: -1}}
	case "Throttling":
		p.Inputs = [][]int{elems(0, n)}
		p.N = 2
		p.IntervalMs = 10
	case "Take":
		p.Inputs = [][]int{elems(0, n)}
		p.N = 2
	case "StdErr":
		p.Inputs = [][]int{elems(0, n)}
		p.Mode = "try"
		if n > 1 {
			p.FailAt = []int{1}
		}
	default:
		p.Inputs = [][]int{elems(0, n)}
	}
	for len(p.Consumers) < nConsumers(stage) {
		p.Consumers = append(p.Consumers, driver.ConsumerPlan{Abandon: -1})
	}
	return p
}

func c06Valid(p *driver.Plan) bool {
	stage, _ := baseStage(p.Stage)
	if isGenerator(stage) {
		// an infinite generator needs somebody to stop it
		if p.Consumer(0).Abandon < 0 && p.CancelStep < 0 && p.CancelMs <= 0 {
			return false
		}
		if stage == "Unfold" && p.Mode == "try" {
			return false
		}
		// computation costs no virtual time: a timer can only stop Unfold if
		// its consumer lets time pass, or somebody else ends the run
		zeroTime := stage == "Unfold" || planInterval(p) == 0
		if zeroTime && p.Consumer(0).Abandon < 0 && p.CancelStep < 0 {
			slow := false
			for _, d := range p.Consumer(0).DelaysMs {
				slow = slow || d > 0
			}
			if !slow {
				return false
			}
		}
	}
	return true
}

func c06Gen(r *driver.Rand, thorough bool) *driver.Plan {
	stage := driver.Pick(r, c06Stages...)
	n := genLen(r, thorough)
	p := c06Base(stage, n, genCap(r))
	p.Fn = r.Intn(60)
	if !isGenerator(stage) {
		p.FnArg = r.Intn(n + 2)
	} else {
		p.FnArg = r.Intn(50)
	}
	switch stage {
	case "Take":
		p.N = r.Intn(n + 2)
	case "Throttling":
		p.N = 1 + r.Intn(3)
		p.IntervalMs = driver.Pick(r, 10, 100, 0, 1+r.Intn(30))
	case "Emit":
		p.IntervalMs = driver.Pick(r, 1, 10, 1000, 1+r.Intn(40), 0)
	case "Join":
		k := driver.Pick(r, 0, 1, 2, 3, 5, 9, 17)
		p.Inputs = nil
		p.InCaps = nil
		for i := 0; i < k; i++ {
			p.Inputs = append(p.Inputs, elems(i, r.Intn(4)))
			p.InCaps = append(p.InCaps, genCap(r))
		}
		if k == 0 {
			p.Inputs = [][]int{}
		}
	case "Fold":
		if r.Chance(1, 3) {
			p.Monoid = driver.Pick(r, "sum", "prod", "max")
		}
	}
	// error modes (the error channel is one more returned channel that must close)
	switch stage {
	case "Map", "FMap", "Emit", "StdErr":
		p.Mode = driver.Pick(r, "pure", "lift", "try", "try")
	case "Unfold":
		p.Mode = driver.Pick(r, "pure", "lift")
	}
	if p.Mode != "pure" && r.Chance(1, 4) {
		p.SetX("err_kind", 1+r.Intn(5))
	}
	if stage == "StdErr" && r.Chance(1, 2) {
		// the library's own error reader: many failures, of any kind
		p.Mode = "try"
		p.FailAt = nil
		for i := 0; i < n; i++ {
			if r.Chance(1, 2) {
				p.FailAt = append(p.FailAt, i)
			}
		}
		p.SetX("err_kind", r.Intn(6))
	} else if p.Mode != "pure" && r.Chance(1, 2) {
		k := 1 + r.Intn(2)
		p.FailAt = nil
		for i := 0; i < k; i++ {
			p.FailAt = append(p.FailAt, r.Intn(n+1))
		}
	}
	// environment paces
	np := len(p.Inputs)
	p.Consumers = nil
	genEnvPaces(r, p, np, nConsumers(stage))
	// faults
	for i := range p.Consumers {
		if r.Chance(1, 4) {
			p.Consumers[i].Abandon = r.Intn(n + 2)
		}
	}
	if isGenerator(stage) && r.Chance(2, 3) {
		p.Consumers[0].Abandon = r.Intn(n + 2)
	}
	for i := range p.Producers {
		if r.Chance(1, 10) {
			p.Producers[i].NoClose = true
		}
	}
	switch r.Intn(6) {
	case 0, 1, 2:
		p.CancelStep = r.Intn(20 + 12*n)
	case 3:
		p.CancelMs = driver.Pick(r, 1, 5, 10, 15, 100, 1000) + r.Intn(3)
	case 4:
		p.CancelAtEnd = true
	}
	if r.Chance(1, 8) {
		p.SetX("late_build", 1+r.Intn(12)) // also for generators: the context may be cancelled before the stage exists
	}
	if r.Chance(1, 5) {
		// user functions that take (virtual) time: a call may be in flight when the cancel comes
		p.FnStallMs = []int{driver.Pick(r, 0, 1, 60), driver.Pick(r, 0, 60, 200, 1100)}
	}
	if p.CancelStep < 0 && p.CancelMs == 0 && !p.CancelAtEnd && r.Chance(1, 3) {
		p.SetX("uses", 2)
		p.SetX("cancel_between", 1)
	}
	genSched(r, p)
	if isGenerator(stage) && (p.Policy == driver.PolLowest || p.Policy == driver.PolRunBlock) {
		p.Budget = 300
	}
	if !c06Valid(p) {
		p.CancelStep = r.Intn(40)
	}
	return p
}

func c06Enum(thorough bool) []*driver.Plan {
	var out []*driver.Plan
	maxLen := 3
	capsE := []int{0, 1, 2}
	pols := []string{driver.PolRunBlock, driver.PolEnvFirst, driver.PolLibFirst, driver.PolRR}
	if thorough {
		maxLen = 4
		pols = basePolicies
	}
	for _, stage := range c06Stages {
		for _, cap := range capsE {
			for n := 0; n <= maxLen; n++ {
				for _, pol := range pols {
					p := c06Base(stage, n, cap)
					p.Policy = pol
					p.Budget = 4000
					p.CancelAtEnd = true
					p.SetX("sweep_cancel", 1)
					p.SetX("sweep_abandon", 1)
					p.SetX("sweep_abandon_max", n+1)
					if isGenerator(stage) {
						p.Extra["sweep_abandon"] = 0
					}
					out = append(out, p)
				}
			}
		}
	}
	return out
}

func c06Build(e *driver.Env) { driver.Phased(e, c06BuildOne, c06Final) }

func c06BuildOne(e *driver.Env) {
	s := BuildStage(e, "C06.b")
	e.Data = s
}

// joinOnline: restricted to each input, the delivered sequence is a prefix of
// that input.
func joinOnline(s *Sys, clause string) func(i, v int) {
	next := map[int]int{}
	return func(i, v int) {
		in := v / stride
		idx := v % stride
		if in < 0 || in >= len(s.P.Inputs) || idx >= len(s.P.Inputs[in]) || s.P.Inputs[in][idx] != v {
			s.E.Failf(clause, "Join delivered an element that no input contains", "Join delivered %d; inputs %v", v, s.P.Inputs)
			return
		}
		if s.P.X("dup_input") == 1 && in == 0 {
			// two copiers on the same channel: order within that input is not
			// determined; exactly-once is checked at the end
			next[in]++
			return
		}
		if idx != next[in] {
			s.E.Failf(clause, "Join lost, duplicated or reordered elements of one input",
				"Join: element %d of input %d arrived when element index %d was due (delivered so far %v)", v, in, next[in], s.Out.Values())
			return
		}
		next[in]++
	}
}

func c06Final(e *driver.Env) {
	s := e.Data.(*Sys)
	s.NoPanic("C06.a")
	if e.Viol != nil {
		return
	}
	if ps := e.EnvPanics(); len(ps) > 0 {
		e.Failf("C06.e", "environment task panicked because of the stage: "+ps[0].Panic, "%s: %s", e.Plan.Stage, driver.DescribeTasks(ps))
		return
	}
	s.Closure("C06.c", "C06.d")
}

func init() {
	Scenarios["C06"] = &driver.Scenario{Prop: "C06", Gen: c06Gen, Enum: c06Enum, Build: c06Build, Final: c06Final, Valid: c06Valid}
}
