package pipeprops

import (
	"verif/sim/driver"
)

// C09 — fork stages: every element processed exactly once, results equal to
// the sequential stage up to order, outputs closed only after all workers are
// done, closure/cancel/no-leak as C06 (DESIGN §6.5).

var c09Stages = []string{"fork.Map", "fork.FMap", "fork.Filter", "fork.Partition", "fork.ForEach", "fork.Void"}

func c09Base(stage string, par, n int) *driver.Plan {
	p := &driver.Plan{Prop: "C09", Stage: stage, Mode: "pure", Par: par, Cap: 0, Inputs: [][]int{elems(0, n)}, CancelStep: -1}
	p.Consumers = []driver.ConsumerPlan{{Abandon: -1}, {Abandon: -1}, {Abandon: -1}}
	if stage == "fork.FMap" {
		p.Mode = "lift" // LiftF with a function that never fails
	}
	return p
}

func c09Gen(r *driver.Rand, thorough bool) *driver.Plan {
	stage := driver.Pick(r, c09Stages...)
	par := genPar(r)
	n := r.Intn(min(3*par, 24) + 1)
	if thorough && r.Chance(1, 4) {
		n = r.Intn(61)
	}
	if r.Chance(1, 40) {
		n = driver.Pick(r, 33, 64, 65, 129, 257)
		par = min(par, 4)
	}
	if r.Chance(1, 60) {
		par = driver.Pick(r, 65, 129, 257)
		n = r.Intn(7)
	}
	p := c09Base(stage, par, n)
	p.Cap = genCap(r)
	p.Fn = r.Intn(60)
	p.FnArg = r.Intn(n + 2)
	if (stage == "fork.Map" || stage == "fork.FMap") && r.Chance(1, 2) {
		p.Mode = driver.Pick(r, "try", "try", "lift")
		if r.Chance(1, 3) {
			p.SetX("err_kind", 1+r.Intn(5))
		}
		for i := 0; i < n; i++ {
			if r.Chance(1, 3) {
				p.FailAt = append(p.FailAt, i)
			}
		}
	}
	if stage == "fork.ForEach" && r.Chance(1, 3) {
		p.Mode = driver.Pick(r, "try", "lift") // the visit function fails on some elements
		for i := 0; i < n; i++ {
			if r.Chance(1, 2) {
				p.FailAt = append(p.FailAt, i)
			}
		}
	}
	if (stage == "fork.Filter" || stage == "fork.Partition") && r.Chance(1, 2) {
		// predicates that fail on some elements (and may answer true while failing)
		p.SetX("pred_fail", 1)
		for i := 0; i < n; i++ {
			if r.Chance(1, 2) {
				p.FailAt = append(p.FailAt, i)
			}
		}
	}
	// completion orders of in-flight calls: stalls and extra scheduling points
	if r.Chance(1, 2) {
		k := 1 + r.Intn(4)
		for i := 0; i < k; i++ {
			p.FnStallMs = append(p.FnStallMs, driver.Pick(r, 0, 0, 1, 3, 10, 50))
		}
	}
	p.FnYields = driver.Pick(r, 0, 0, 1, 2, 3)
	p.Consumers = nil
	genEnvPaces(r, p, 1, 3)
	for i := range p.Consumers {
		if r.Chance(1, 8) {
			p.Consumers[i].Abandon = r.Intn(n + 2)
		}
	}
	switch r.Intn(8) {
	case 0, 1:
		p.CancelStep = r.Intn(30 + 14*n)
	case 2:
		p.CancelMs = driver.Pick(r, 1, 4, 12, 60) + r.Intn(3)
	case 3:
		p.CancelAtEnd = true
	}
	if r.Chance(1, 12) {
		p.Producers[0].NoClose = true
	}
	genSched(r, p)
	if r.Chance(1, 2) {
		p.PreemptN = driver.Pick(r, 2, 3, 5)
	}
	if p.CancelStep < 0 && p.CancelMs == 0 && !p.CancelAtEnd && r.Chance(1, 6) {
		p.SetX("uses", 2)
	} else if r.Chance(1, 8) {
		p.SetX("late_build", 1+r.Intn(12))
	}
	return p
}

func c09Enum(thorough bool) []*driver.Plan {
	var out []*driver.Plan
	maxN := 4
	pars := []int{1, 2, 3}
	if thorough {
		maxN = 6
		pars = []int{1, 2, 3, 4}
	}
	for _, stage := range c09Stages {
		for _, par := range pars {
			for n := 0; n <= maxN; n++ {
				for _, pol := range basePolicies {
					modes := []string{""}
					if stage == "fork.Map" || stage == "fork.FMap" {
						modes = append(modes, "try", "lift")
					}
					for _, mode := range modes {
						p := c09Base(stage, par, n)
						p.Policy, p.Budget = pol, 4000
						if mode != "" {
							p.Mode = mode
							if n > 1 {
								p.FailAt = []int{1}
							}
							if n > 3 {
								p.FailAt = []int{1, 3}
							}
						}
						p.CancelAtEnd = true
						if par <= 2 && n <= 3 {
							p.SetX("sweep_cancel", 1)
						}
						out = append(out, p)
					}
				}
			}
		}
	}
	return out
}

func c09BuildOne(e *driver.Env) { e.Data = BuildStage(e, "C09.b") }

func c09Build(e *driver.Env) { driver.Phased(e, c09BuildOne, c09Final) }

func c09Final(e *driver.Env) {
	s := e.Data.(*Sys)
	p := e.Plan
	s.NoPanic("C09.c")
	if e.Viol != nil {
		return
	}
	if ps := e.EnvPanics(); len(ps) > 0 {
		e.Failf("C09.c", "environment task panicked because of the stage: "+ps[0].Panic, "%s: %s", p.Stage, driver.DescribeTasks(ps))
		return
	}
	// C09.a: never more than one call per element, whatever happens
	in := p.Inputs[0]
	counts := map[int]int{}
	for _, c := range s.Calls.List {
		counts[c.Arg]++
	}
	for _, x := range in {
		if counts[x] > 1 {
			e.Failf("C09.a", "user function applied more than once to an element", "%s par=%d: element %d processed %d times", p.Stage, p.Par, x, counts[x])
			return
		}
	}
	for x := range counts {
		if s.indexOf(x) < 0 {
			e.Failf("C09.a", "user function applied to a value that is not an input element", "%s par=%d: function applied to %d; input %v", p.Stage, p.Par, x, in)
			return
		}
	}
	// C09.c: when a consumer observed the close of an output, every call had ended
	for _, st := range []*driver.Stream[int]{s.Out, s.Out2} {
		if st != nil && st.Closed {
			for _, c := range s.Calls.List {
				if c.EndSeq == 0 || c.EndSeq > st.CloseSeq || c.Seq > st.CloseSeq {
					e.Failf("C09.c", "an output was closed while a worker was still processing an element",
						"%s par=%d: %s closed at step %d, call on %d ran %d..%d", p.Stage, p.Par, st.Name, st.CloseSeq, c.Arg, c.Seq, c.EndSeq)
					return
				}
			}
		}
	}
	if !e.Quiescent {
		return
	}
	stage, _ := baseStage(p.Stage)
	complete := !e.Cancelled.Load() && s.InputsClosed() && s.AllDrained()
	if p.Mode == "lift" && len(p.FailAt) > 0 && stage != "ForEach" {
		complete = false // fail-fast in a fork stage: only the upper-bound, closure and leak clauses apply
	}
	if complete {
		if stage != "Void" {
			for _, x := range in {
				if counts[x] != 1 {
					e.Failf("C09.a", "an element was never processed", "%s par=%d: element %d processed %d times (input %v)", p.Stage, p.Par, x, counts[x], in)
					return
				}
			}
		} else if s.Prods[0].Sent != len(in) || len(s.InCh[0]) != 0 {
			e.Failf("C09.a", "Void did not consume every element", "fork.Void par=%d: %d of %d consumed", p.Par, s.Prods[0].Sent-len(s.InCh[0]), len(in))
			return
		}
		if len(s.M.Free) > 0 {
			// elements whose predicate failed: not predicted, but each comes
			// out at most once in all (exactly once for Partition)
			free := map[int]int{}
			for _, x := range s.M.Free {
				free[x]++
			}
			seen := map[int]int{}
			strip := func(vs []int) []int {
				var out []int
				for _, v := range vs {
					if free[v] > 0 {
						seen[v]++
						continue
					}
					out = append(out, v)
				}
				return out
			}
			left, right := strip(valuesOf(s.Out)), strip(valuesOf(s.Out2))
			for x, n := range free {
				if seen[x] > n || (stage == "Partition" && seen[x] != n) {
					e.Failf("C09.b", "an element whose predicate failed was lost or delivered more than once",
						"%s par=%d: element %d went in %d times and came out %d times (left %v, right %v)", p.Stage, p.Par, x, n, seen[x], valuesOf(s.Out), valuesOf(s.Out2))
					return
				}
			}
			if !sameMultiset(left, s.M.Out) || (s.Out2 != nil && !sameMultiset(right, s.M.Out2)) {
				e.Failf("C09.b", "delivered multiset differs from what the sequential stage delivers",
					"%s par=%d: delivered %v | %v (elements with a failing predicate left out), sequential stage delivers %v | %v", p.Stage, p.Par, left, right, s.M.Out, s.M.Out2)
				return
			}
		} else if s.Out != nil && !sameMultiset(s.Out.Values(), s.M.Out) {
			e.Failf("C09.b", "delivered multiset differs from what the sequential stage delivers",
				"%s par=%d: delivered %v, sequential stage delivers %v", p.Stage, p.Par, s.Out.Values(), s.M.Out)
			return
		}
		if len(s.M.Free) == 0 && s.Out2 != nil && !sameMultiset(s.Out2.Values(), s.M.Out2) {
			e.Failf("C09.b", "delivered multiset differs from what the sequential stage delivers",
				"%s par=%d right side: delivered %v, sequential stage delivers %v", p.Stage, p.Par, s.Out2.Values(), s.M.Out2)
			return
		}
		if s.Err != nil {
			var ids []int
			for _, o := range s.Err.Got {
				if id := errID(o.V); !s.afterCancelNote(id, o.Seq) {
					ids = append(ids, id)
				}
			}
			if !sameMultiset(ids, s.M.Errs) {
				e.Failf("C09.b", "delivered errors differ from one per failing element",
					"%s par=%d: errors %v, expected %v", p.Stage, p.Par, ids, s.M.Errs)
				return
			}
		}
	}
	s.Closure("C09.d", "C09.d")
}

func valuesOf(st *driver.Stream[int]) []int {
	if st == nil {
		return nil
	}
	return st.Values()
}

func init() {
	Scenarios["C09"] = &driver.Scenario{Prop: "C09", Gen: c09Gen, Enum: c09Enum, Build: c09Build, Final: c09Final}
}
