package pipeprops

import (
	"github.com/fogfish/golem/pipe/v2"
	"github.com/fogfish/golem/pipe/v2/fork"

	"verif/sim/driver"
)

// C10 — fork.Fold equals the sequential left fold for every commutative
// monoid, whatever its identity element (DESIGN §6.6).

var primes = []int{2, 3, 5, 7, 11, 13, 17, 19, 23, 29, 31, 37, 41, 43, 47}

// c10Inputs chooses inputs that make the result as telling as possible:
// "sum": distinct powers of 8 (the base-8 digits of the result count how often
// each element was combined); "prodx": distinct primes (exponents count).
func c10Inputs(r *driver.Rand, mon string, n int) []int {
	out := make([]int, n)
	switch mon {
	case "sum":
		for i := range out {
			out[i] = 1 << (3 * uint(i))
		}
	case "prodx":
		for i := range out {
			out[i] = primes[i]
		}
	case "and":
		for i := range out {
			out[i] = -1 &^ (1 << uint(r.Intn(40)))
		}
	case "or":
		for i := range out {
			out[i] = 1 << uint(r.Intn(40))
		}
	case "gcd":
		for i := range out {
			out[i] = 2 * 3 * 5 * (1 + r.Intn(50))
		}
	default:
		for i := range out {
			out[i] = r.Intn(2001) - 1000
		}
	}
	if r != nil {
		for i := len(out) - 1; i > 0; i-- {
			j := r.Intn(i + 1)
			out[i], out[j] = out[j], out[i]
		}
	}
	return out
}

var c10Monoids = []string{"sum", "prodx", "prod", "max", "min", "and", "or", "gcd"}

func c10MaxN(mon string) int {
	switch mon {
	case "sum":
		return 20
	case "prodx":
		return 15
	}
	return 20
}

func c10Plan(r *driver.Rand, mon string, par, n int) *driver.Plan {
	p := &driver.Plan{Prop: "C10", Stage: "fork.Fold", Par: par, Monoid: mon, CancelStep: -1, Inputs: [][]int{c10Inputs(r, mon, n)}}
	p.Consumers = []driver.ConsumerPlan{{Abandon: -1}}
	return p
}

func c10Gen(r *driver.Rand, thorough bool) *driver.Plan {
	mon := driver.Pick(r, c10Monoids...)
	par := genPar(r)
	n := r.Intn(c10MaxN(mon) + 1)
	if r.Chance(1, 3) {
		n = r.Intn(par + 1) // shorter than the worker count, incl. empty
	}
	n = min(n, c10MaxN(mon))
	if r.Chance(1, 20) {
		// very many workers, few elements: any fixed internal bound on workers
		par = driver.Pick(r, 65, 129, 200, 257, 513)
		n = min(n, 6)
	}
	p := c10Plan(r, mon, par, n)
	if r.Chance(1, 6) {
		// long inputs with plain random values: hand-over or batching
		// thresholds inside a worker
		mon = driver.Pick(r, "sum", "sum", "prod", "max", "gcd")
		n = driver.Pick(r, 31, 32, 33, 64, 65, 100, 129, 300)
		par = min(par, driver.Pick(r, 1, 2, 3, 9))
		p = c10Plan(r, mon, par, 0)
		for i := 0; i < n; i++ {
			p.Inputs[0] = append(p.Inputs[0], 1+r.Intn(1<<20))
		}
	}
	if r.Chance(1, 6) {
		p.SetX("boxed", 1) // elements and accumulators are pointers, Combine works in place
	}
	// Not drawn (it was, after seeded change C10-w4m1): cancelling the context
	// after the fold completed and reading the result only then. C10 does not
	// quantify over cancellation, so what a cancelled fork.Fold still hands
	// over is left open — an unbuffered hand-over guarded by ctx.Done() is as
	// good as the buffered one.
	lateReader := false
	p.Cap = genCap(r)
	if r.Chance(1, 2) {
		k := 1 + r.Intn(4)
		for i := 0; i < k; i++ {
			p.FnStallMs = append(p.FnStallMs, driver.Pick(r, 0, 0, 1, 3, 10))
		}
	}
	p.FnYields = driver.Pick(r, 0, 0, 1, 2)
	p.Consumers = nil
	genEnvPaces(r, p, 1, 1)
	genSched(r, p)
	if r.Chance(1, 3) {
		p.PreemptN = driver.Pick(r, 2, 4)
	}
	if r.Chance(1, 8) {
		p.SetX("uses", 2)
	}
	if lateReader {
		// the fold completes at once (nothing takes virtual time), the context
		// is cancelled a second later and the result is read only after that:
		// the value delivered by a finished fold must still be there
		p.FnStallMs = nil
		p.Producers = []driver.ProducerPlan{{}}
		p.Consumers = []driver.ConsumerPlan{{Abandon: -1, StartMs: 5000}}
		p.CancelMs = 1000
		p.SetX("uses", 0)
	}
	return p
}

func c10Enum(thorough bool) []*driver.Plan {
	var out []*driver.Plan
	maxN := 4
	if thorough {
		maxN = 7
	}
	r := driver.NewRand(10)
	for _, mon := range c10Monoids {
		for _, par := range []int{1, 2, 3, 4} {
			for n := 0; n <= maxN; n++ {
				for _, pol := range basePolicies {
					p := c10Plan(r, mon, par, n)
					p.Policy, p.Budget = pol, 4000
					out = append(out, p)
				}
			}
		}
	}
	return out
}

type c10State struct {
	s      *Sys
	seq    *driver.Stream[int] // pipe.Fold on the same input
	boxed  bool
	boxOut *driver.Stream[*box]
	boxSeq *driver.Stream[*box]
}

func c10Build(e *driver.Env) { driver.Phased(e, c10BuildOne, c10Final) }

// box is a reference-type accumulator: Empty() allocates a fresh one and
// Combine adds into its left operand — the way set-union or big-number monoids
// are commonly written. Correct for pipe.Fold, hence required of fork.Fold.
type box struct{ v int }

type boxMonoid struct{ name string }

func (m boxMonoid) Empty() *box { e, _ := monoidDef(m.name); return &box{v: e} }
func (m boxMonoid) Combine(a, b *box) *box {
	_, op := monoidDef(m.name)
	a.v = op(a.v, b.v)
	return a
}

func c10BuildBoxed(e *driver.Env) {
	p := e.Plan
	st := &c10State{boxed: true}
	mk := func(name string) (chan *box, []*box) {
		ch := make(chan *box, p.Cap)
		var items []*box
		for _, x := range p.Inputs[0] {
			items = append(items, &box{v: x})
		}
		return ch, items
	}
	in1, items1 := mk("fork")
	driver.Produce(e, "producer0", in1, items1, p.Producer(0))
	st.boxOut = driver.Consume(e, "consumer.out", fork.Fold[*box](e.Ctx, p.Par, in1, boxMonoid{p.Monoid}), p.Consumer(0), nil)
	in2, items2 := mk("seq")
	driver.Produce(e, "producer.seq", in2, items2, driver.ProducerPlan{})
	st.boxSeq = driver.Consume(e, "consumer.seq", pipe.Fold[*box](e.Ctx, in2, boxMonoid{p.Monoid}), driver.ConsumerPlan{Abandon: -1}, nil)
	e.Data = st
}

func c10BuildOne(e *driver.Env) {
	if e.Plan.X("boxed") == 1 {
		c10BuildBoxed(e)
		return
	}
	st := &c10State{s: BuildStage(e, "C10.a")}
	// the sequential stage on the same input, in the same run
	in2 := make(chan int, e.Plan.Cap)
	driver.Produce(e, "producer.seq", in2, e.Plan.Inputs[0], driver.ProducerPlan{})
	st.seq = driver.Consume(e, "consumer.seq", pipe.Fold(e.Ctx, in2, monoidOf(e.Plan.Monoid)), driver.ConsumerPlan{Abandon: -1}, nil)
	e.Data = st
}

func c10Final(e *driver.Env) {
	st := e.Data.(*c10State)
	if st.boxed {
		c10FinalBoxed(e, st)
		return
	}
	s := st.s
	p := e.Plan
	s.NoPanic("C10.d")
	if e.Viol != nil || !e.Quiescent {
		return
	}
	in := p.Inputs[0]
	got := s.Out.Values()
	want := foldModel(p.Monoid, in)
	if len(got) != 1 {
		e.Failf("C10.a", "fork.Fold did not deliver exactly one value", "par=%d monoid=%s input=%v: delivered %v", p.Par, p.Monoid, in, got)
		return
	}
	if got[0] != want {
		class := "fork.Fold result differs from the sequential left fold"
		e.Failf("C10.b", class, "par=%d monoid=%s input=%v: delivered %d, sequential fold from Empty() is %d", p.Par, p.Monoid, in, got[0], want)
		return
	}
	if sv := st.seq.Values(); len(sv) != 1 || sv[0] != got[0] {
		e.Failf("C10.b", "fork.Fold result differs from pipe.Fold on the same input", "par=%d monoid=%s input=%v: fork %v, pipe %v", p.Par, p.Monoid, in, got, sv)
		return
	}
	// C10.c is implied by C10.b for "sum" over distinct powers of 8 and for
	// "prodx" over distinct primes: a dropped or doubly combined element
	// changes a digit / an exponent.
	if alive := e.LibTasksAlive(nil); len(alive) > 0 {
		e.Failf("C10.d", "library goroutine still alive after the result was delivered", "par=%d: %s", p.Par, driver.DescribeTasks(alive))
		return
	}
	if !s.Out.Closed {
		e.Failf("C10.d", "result channel not closed after the value", "par=%d monoid=%s", p.Par, p.Monoid)
	}
}

func c10FinalBoxed(e *driver.Env, st *c10State) {
	p := e.Plan
	if ps := e.LibPanics(); len(ps) > 0 {
		e.Failf("C10.d", "library goroutine panicked: "+ps[0].Panic, "fork.Fold (boxed): %s", driver.DescribeTasks(ps))
		return
	}
	if !e.Quiescent {
		return
	}
	in := p.Inputs[0]
	want := foldModel(p.Monoid, in)
	var got []int
	for _, o := range st.boxOut.Got {
		if o.V == nil {
			got = append(got, -1<<62)
		} else {
			got = append(got, o.V.v)
		}
	}
	if len(got) != 1 {
		e.Failf("C10.a", "fork.Fold did not deliver exactly one value", "par=%d monoid=%s (in-place accumulators) input=%v: delivered %v", p.Par, p.Monoid, in, got)
		return
	}
	if got[0] != want {
		e.Failf("C10.b", "fork.Fold result differs from the sequential left fold (monoid with in-place accumulators)",
			"par=%d monoid=%s input=%v: delivered %d, sequential fold from Empty() is %d", p.Par, p.Monoid, in, got[0], want)
		return
	}
	if sv := st.boxSeq.Got; len(sv) != 1 || sv[0].V == nil || sv[0].V.v != want {
		e.Failf("C10.b", "pipe.Fold result differs from the plain left fold (monoid with in-place accumulators)", "pipe.Fold delivered %d values", len(sv))
		return
	}
	if alive := e.LibTasksAlive(nil); len(alive) > 0 {
		e.Failf("C10.d", "library goroutine still alive after the result was delivered", "par=%d: %s", p.Par, driver.DescribeTasks(alive))
		return
	}
	if !st.boxOut.Closed {
		e.Failf("C10.d", "result channel not closed after the value", "par=%d monoid=%s", p.Par, p.Monoid)
	}
}

func init() {
	Scenarios["C10"] = &driver.Scenario{Prop: "C10", Gen: c10Gen, Enum: c10Enum, Build: c10Build, Final: c10Final}
}
