package seqprops

import (
	"encoding/json"
	"fmt"
	"os"
	"testing"

	"verif/sim/driver"
)

// TestWorker is the entry point of the seqsim worker binary (see cmd/check).
func TestWorker(t *testing.T) {
	if os.Getenv("VERIF_JOB") == "" {
		t.Skip("not started by cmd/check")
	}
	var in driver.WorkerIn
	if err := json.Unmarshal([]byte(os.Getenv("VERIF_JOB")), &in); err != nil {
		fmt.Fprintln(os.Stderr, "INFRA: bad VERIF_JOB:", err)
		os.Exit(2)
	}
	driver.Watchdog(120e9)
	var out *driver.WorkerOut
	switch in.Prop {
	case "C16":
		out = runC16(&in)
	case "C18":
		out = runC18(t, &in)
	default:
		fmt.Fprintln(os.Stderr, "INFRA: unknown property", in.Prop)
		os.Exit(2)
	}
	b, _ := json.Marshal(out)
	if err := os.WriteFile(in.Out, b, 0o644); err != nil {
		fmt.Fprintln(os.Stderr, "INFRA:", err)
		os.Exit(2)
	}
	if out.Infra != "" {
		fmt.Fprintln(os.Stderr, "INFRA:", out.Infra)
		os.Exit(2)
	}
}
