// Package seqprops holds the seqsim engine: single-threaded code whose only
// simulation-relevant ingredient is a fault seam (C16: the duct Visitor
// callbacks) or a clock/randomness seam (C18: the skip list's height
// generator seeded from time.Now).
package seqprops

import (
	"encoding/json"
	"errors"
	"fmt"
	"os"
	"path/filepath"
	"time"

	"github.com/fogfish/golem/duct"

	"verif/sim/driver"
)

// ---------------------------------------------------------------- programs

// Op is one combinator application. C is the target type index for Join and
// LiftF (0..3 = T0..T3, 4 = Void).
type Op struct {
	K string `json:"k"` // join | lift | wrap | unit | yield
	C int    `json:"c,omitempty"`
	// V: how the F / T value handed to the combinator came about: 0 through
	// duct.L2 / duct.L1, 1 the zero value (no payload), 2 built for another
	// instantiation and converted. The step's own type parameters name the
	// node in every case.
	V int `json:"v,omitempty"`
}

type Program struct {
	A   int  `json:"a"`            // type index of From
	AV  int  `json:"av,omitempty"` // variant (see Op.V) of From's source value
	Ops []Op `json:"ops"`
	// Mid lists steps (index into Ops, -1 = From) after which the program
	// built so far is visited before construction goes on: every intermediate
	// morphism is still handed to exactly one combinator; looking at it must
	// not change what later visits report.
	Mid []int `json:"mid,omitempty"`
}

// mkF and mkT build the value a step is given, in the variant asked for.
func mkF[B, C any](f any, v int) duct.F[B, C] {
	switch v {
	case 1:
		var z duct.F[B, C]
		return z
	case 2:
		return duct.F[B, C](duct.L2[C, []B](f))
	}
	return duct.L2[B, C](f)
}

func mkT[A any](f any, v int) duct.T[A] {
	switch v {
	case 1:
		var z duct.T[A]
		return z
	case 2:
		return duct.T[A](duct.L1[[]A](f))
	}
	return duct.L1[A](f)
}

// payload is the identity a node must carry for step identity id.
func payload(id, v int) int {
	if v == 1 {
		return -1
	}
	return id
}

func (p Program) String() string { b, _ := json.Marshal(p); return string(b) }

// next returns the type after applying op at current type b, and whether the
// application is well-typed inside the universe.
func next(b int, op Op) (int, bool) {
	switch op.K {
	case "join":
		return op.C, true
	case "lift":
		return op.C, b >= 1 && b <= 3
	case "wrap":
		return b - 1, b >= 1 && b <= 3
	case "unit":
		return b + 1, b <= 2
	case "yield":
		return 4, true
	}
	return 0, false
}

func (p Program) valid() bool {
	b := p.A
	for _, op := range p.Ops {
		nb, ok := next(b, op)
		if !ok {
			return false
		}
		b = nb
	}
	return true
}

func allOps() []Op {
	ops := []Op{{K: "wrap"}, {K: "unit"}, {K: "yield"}}
	for c := 0; c <= 4; c++ {
		ops = append(ops, Op{K: "join", C: c}, Op{K: "lift", C: c})
	}
	return ops
}

// build runs the real combinators. Step i carries the identity 100+i as its
// F / Source / Target payload.
func build(p Program) (m any, finalType int) { return buildObserved(p, nil) }

// buildObserved calls look (when not nil) after From (i = -1) and after every
// step with the morphism built so far and its current type.
func buildObserved(p Program, look func(i int, m any, b int)) (m any, finalType int) {
	m = fromTab[p.A](100, p.AV)
	b := p.A
	if look != nil {
		look(-1, m, b)
	}
	for i, op := range p.Ops {
		id := 101 + i
		switch op.K {
		case "join":
			m = joinTab[[3]int{p.A, b, op.C}](m, id, op.V)
		case "lift":
			m = liftTab[[3]int{p.A, b, op.C}](m, id, op.V)
		case "wrap":
			m = wrapTab[[2]int{p.A, b}](m)
		case "unit":
			m = unitTab[[2]int{p.A, b}](m)
		case "yield":
			m = yieldTab[[2]int{p.A, b}](m, id, op.V)
		}
		b, _ = next(b, op)
		if look != nil {
			look(i, m, b)
		}
	}
	return m, b
}

// ------------------------------------------------------------------- model

// node of the reference tree, written from the property text: Join and Yield
// land in the innermost still-open nested context, LiftF/WrapF open a new
// nested context there, Unit closes the innermost open one.
type mnode struct {
	kind     string // morphism | seq | map | from | yield
	a, b     string // type names
	id       int    // payload identity
	children []*mnode
}

func model(p Program) *mnode {
	root := &mnode{kind: "morphism"}
	open := []*mnode{root}
	top := func() *mnode { return open[len(open)-1] }
	top().children = append(top().children, &mnode{kind: "from", a: typeNames[p.A], id: payload(100, p.AV)})
	b := p.A
	for i, op := range p.Ops {
		id := 101 + i
		switch op.K {
		case "join":
			top().children = append(top().children, &mnode{kind: "map", a: typeNames[b], b: typeNames[op.C], id: payload(id, op.V)})
		case "lift":
			inner := &mnode{kind: "seq"}
			inner.children = append(inner.children, &mnode{kind: "map", a: typeNames[b-1], b: typeNames[op.C], id: payload(id, op.V)})
			top().children = append(top().children, inner)
			open = append(open, inner)
		case "wrap":
			inner := &mnode{kind: "seq"}
			top().children = append(top().children, inner)
			open = append(open, inner)
		case "unit":
			if len(open) > 1 {
				open = open[:len(open)-1]
			}
		case "yield":
			top().children = append(top().children, &mnode{kind: "yield", a: typeNames[b], id: payload(id, op.V)})
		}
		b, _ = next(b, op)
	}
	return root
}

// cb is one visitor callback as observed / expected.
type cb struct {
	Kind  string // morphism | seq | map | from | yield
	Enter bool
	Depth int
	A, B  string
	ID    int
	N     int // number of children (seq / morphism)
}

func (c cb) String() string {
	d := "leave"
	if c.Enter {
		d = "enter"
	}
	return fmt.Sprintf("%s-%s@%d(%s,%s,#%d,n=%d)", d, c.Kind, c.Depth, c.A, c.B, c.ID, c.N)
}

func expected(n *mnode, depth int, out *[]cb) {
	c := cb{Kind: n.kind, Enter: true, Depth: depth, A: n.a, B: n.b, ID: n.id, N: len(n.children)}
	*out = append(*out, c)
	for _, ch := range n.children {
		expected(ch, depth+1, out)
	}
	c.Enter = false
	*out = append(*out, c)
}

// recorder is the visitor: records every callback and fails at callback number
// failAt (−1: never) with a unique error.
type recorder struct {
	trace  []cb
	failAt int
	err    error
}

func (r *recorder) rec(c cb) error {
	r.trace = append(r.trace, c)
	if r.failAt >= 0 && len(r.trace)-1 == r.failAt {
		r.err = fmt.Errorf("visitor failed at callback %d", r.failAt)
		return r.err
	}
	return nil
}

func pid(v any) int {
	if i, ok := v.(int); ok {
		return i
	}
	return -1
}

func (r *recorder) OnEnterMorphism(d int, n duct.AstSeq) error {
	k := "morphism"
	if !n.Root {
		k = "morphism(non-root)"
	}
	return r.rec(cb{Kind: k, Enter: true, Depth: d, N: len(n.Seq)})
}
func (r *recorder) OnLeaveMorphism(d int, n duct.AstSeq) error {
	k := "morphism"
	if !n.Root {
		k = "morphism(non-root)"
	}
	return r.rec(cb{Kind: k, Enter: false, Depth: d, N: len(n.Seq)})
}
func (r *recorder) OnEnterSeq(d int, n duct.AstSeq) error {
	k := "seq"
	if n.Root {
		k = "seq(root)"
	}
	return r.rec(cb{Kind: k, Enter: true, Depth: d, N: len(n.Seq)})
}
func (r *recorder) OnLeaveSeq(d int, n duct.AstSeq) error {
	k := "seq"
	if n.Root {
		k = "seq(root)"
	}
	return r.rec(cb{Kind: k, Enter: false, Depth: d, N: len(n.Seq)})
}
func (r *recorder) OnEnterMap(d int, n duct.AstMap) error {
	return r.rec(cb{Kind: "map", Enter: true, Depth: d, A: n.TypeA, B: n.TypeB, ID: pid(n.F)})
}
func (r *recorder) OnLeaveMap(d int, n duct.AstMap) error {
	return r.rec(cb{Kind: "map", Enter: false, Depth: d, A: n.TypeA, B: n.TypeB, ID: pid(n.F)})
}
func (r *recorder) OnEnterFrom(d int, n duct.AstFrom) error {
	return r.rec(cb{Kind: "from", Enter: true, Depth: d, A: n.Type, ID: pid(n.Source)})
}
func (r *recorder) OnLeaveFrom(d int, n duct.AstFrom) error {
	return r.rec(cb{Kind: "from", Enter: false, Depth: d, A: n.Type, ID: pid(n.Source)})
}
func (r *recorder) OnEnterYield(d int, n duct.AstYield) error {
	return r.rec(cb{Kind: "yield", Enter: true, Depth: d, A: n.Type, ID: pid(n.Target)})
}
func (r *recorder) OnLeaveYield(d int, n duct.AstYield) error {
	return r.rec(cb{Kind: "yield", Enter: false, Depth: d, A: n.Type, ID: pid(n.Target)})
}

func traceStr(t []cb) string {
	s := ""
	for i, c := range t {
		if i > 0 {
			s += " "
		}
		s += c.String()
	}
	return s
}

// checkProgram runs the fault-free visit and one visit per callback position
// with the fault injected there (or only position only, when >= −1… see
// callers). It returns the first violation.
func checkProgram(p Program, onlyFault int, st *c16Stats) *driver.Violation {
	viol := func(clause, class, format string, args ...any) *driver.Violation {
		return &driver.Violation{Property: "C16", Clause: clause, Stage: "duct", Class: class, Msg: fmt.Sprintf(format, args...)}
	}
	var want []cb
	expected(model(p), 0, &want)
	var midViol *driver.Violation
	m, ft := buildObserved(p, func(i int, mid any, b int) {
		look := false
		for _, at := range p.Mid {
			look = look || at == i
		}
		if !look || midViol != nil {
			return
		}
		var wantMid []cb
		expected(model(Program{A: p.A, AV: p.AV, Ops: p.Ops[:i+1]}), 0, &wantMid)
		r := &recorder{failAt: -1}
		err := applyTab[[2]int{p.A, b}](mid, r)
		st.visits++
		if err != nil || !sameTrace(r.trace, wantMid) {
			midViol = viol("C16.a", "visit of the program built so far does not report the steps declared so far", "program %v: visit after step %d returned %v\n got  %s\n want %s", p, i, err, traceStr(r.trace), traceStr(wantMid))
		}
	})
	if midViol != nil {
		return midViol
	}
	apply := applyTab[[2]int{p.A, ft}]
	rec := &recorder{failAt: -1}
	err := apply(m, rec)
	st.visits++
	if err != nil {
		return viol("C16.c", "Apply returned an error although no callback failed", "program %v: %v", p, err)
	}
	rec2 := &recorder{failAt: -1}
	if err := apply(m, rec2); err != nil || !sameTrace(rec2.trace, rec.trace) {
		return viol("C16.a", "two visits of the same program report different things", "program %v: second visit returned %v\n first  %s\n second %s", p, err, traceStr(rec.trace), traceStr(rec2.trace))
	}
	st.visits++
	// C16.b: well-bracketed
	var stack []cb
	for i, c := range rec.trace {
		if c.Enter {
			if len(stack) > 0 && c.Depth != stack[len(stack)-1].Depth+1 {
				return viol("C16.b", "a child is not exactly one level deeper than its parent", "program %v: callback %d %v under %v; trace %s", p, i, c, stack[len(stack)-1], traceStr(rec.trace))
			}
			stack = append(stack, c)
			continue
		}
		if len(stack) == 0 {
			return viol("C16.b", "leave callback without a matching enter", "program %v: callback %d %v; trace %s", p, i, c, traceStr(rec.trace))
		}
		top := stack[len(stack)-1]
		stack = stack[:len(stack)-1]
		if top.Kind != c.Kind || top.Depth != c.Depth || top.ID != c.ID {
			return viol("C16.b", "leave callback does not match the innermost open enter", "program %v: callback %d %v closes %v; trace %s", p, i, c, top, traceStr(rec.trace))
		}
	}
	if len(stack) != 0 {
		return viol("C16.b", "enter callback without a matching leave", "program %v: %v never left; trace %s", p, stack[len(stack)-1], traceStr(rec.trace))
	}
	// C16.a: exactly the declared tree
	if len(rec.trace) != len(want) {
		return viol("C16.a", "visit does not report the AST the combinators describe", "program %v:\n got  %s\n want %s", p, traceStr(rec.trace), traceStr(want))
	}
	for i := range want {
		if rec.trace[i] != want[i] {
			return viol("C16.a", "visit does not report the AST the combinators describe", "program %v: callback %d is %v, expected %v\n got  %s\n want %s", p, i, rec.trace[i], want[i], traceStr(rec.trace), traceStr(want))
		}
	}
	maxDepth := 0
	for _, c := range want {
		maxDepth = max(maxDepth, c.Depth)
	}
	st.maxDepth = max(st.maxDepth, maxDepth)
	// C16.c: a failure at callback k stops the visit at once and is returned
	lo, hi := 0, len(want)-1
	if onlyFault >= 0 {
		lo, hi = onlyFault, min(onlyFault, hi)
	}
	for k := lo; k <= hi; k++ {
		m2, _ := build(p)
		r := &recorder{failAt: k}
		err := apply(m2, r)
		st.visits++
		st.faults++
		if want[k].Enter {
			st.faultAtEnter++
		} else {
			st.faultAtLeave++
		}
		if err == nil || !errors.Is(err, r.err) || err != r.err {
			return viol("C16.c", "the error of a failing callback is not what Apply returns", "program %v: callback %d (%v) failed with %v, Apply returned %v", p, k, want[k], r.err, err)
		}
		if len(r.trace) != k+1 {
			return viol("C16.c", "callbacks ran after a callback failed", "program %v: callback %d (%v) failed, yet %d callbacks ran: %s", p, k, want[k], len(r.trace), traceStr(r.trace))
		}
		for i := 0; i <= k; i++ {
			if r.trace[i] != want[i] {
				return viol("C16.c", "the visit before the failure differs from the fault-free visit", "program %v: fault at %d: callback %d is %v, expected %v", p, k, i, r.trace[i], want[i])
			}
		}
		// the program is a value: a visit that failed must not change what
		// the next visit of the same program reports
		again := &recorder{failAt: -1}
		err = apply(m2, again)
		st.visits++
		if err != nil || !sameTrace(again.trace, want) {
			return viol("C16.a", "a visit after a failed visit of the same program does not report the AST", "program %v: visit failed at callback %d, the next visit returned %v and reported\n got  %s\n want %s", p, k, err, traceStr(again.trace), traceStr(want))
		}
	}
	return nil
}

type c16Stats struct {
	programs     int
	visits       int
	faults       int
	faultAtEnter int
	faultAtLeave int
	maxDepth     int
	maxLen       int
}

type c16Replay struct {
	Property string  `json:"property"`
	Clause   string  `json:"clause"`
	Class    string  `json:"class"`
	Msg      string  `json:"msg"`
	Program  Program `json:"program"`
}

func sameTrace(a, b []cb) bool {
	if len(a) != len(b) {
		return false
	}
	for i := range a {
		if a[i] != b[i] {
			return false
		}
	}
	return true
}

func genProgram(r *driver.Rand, maxLen int) Program {
	p := genProgram0(r, maxLen)
	// visits in the middle of construction
	if r.Chance(1, 4) {
		for i := -1; i < len(p.Ops)-1; i++ {
			if r.Chance(1, 3) {
				p.Mid = append(p.Mid, i)
			}
		}
	}
	// how the F / T values of the steps came about
	if r.Chance(1, 3) {
		if r.Chance(1, 3) {
			p.AV = 1 + r.Intn(2)
		}
		for i := range p.Ops {
			if k := p.Ops[i].K; (k == "join" || k == "lift" || k == "yield") && r.Chance(1, 2) {
				p.Ops[i].V = 1 + r.Intn(2)
			}
		}
	}
	return p
}

func genProgram0(r *driver.Rand, maxLen int) Program {
	p := Program{A: driver.Pick(r, 0, 2)}
	b := p.A
	n := r.Intn(maxLen + 1)
	ops := allOps()
	depth := 0
	for len(p.Ops) < n {
		op := ops[r.Intn(len(ops))]
		// bias towards nesting
		if r.Chance(1, 3) {
			op = Op{K: driver.Pick(r, "lift", "wrap", "unit"), C: r.Intn(4)}
			if op.K != "lift" {
				op.C = 0
			}
		}
		nb, ok := next(b, op)
		if !ok {
			// steer the type so that nesting stays possible
			op = Op{K: "join", C: 1 + r.Intn(3)}
			nb = op.C
		}
		if (op.K == "lift" || op.K == "wrap") && depth >= 6 {
			continue
		}
		if op.K == "lift" || op.K == "wrap" {
			depth++
		}
		if op.K == "unit" && depth > 0 {
			depth--
		}
		p.Ops = append(p.Ops, op)
		b = nb
	}
	return p
}

func runC16(in *driver.WorkerIn) *driver.WorkerOut {
	start := time.Now()
	out := &driver.WorkerOut{Prop: "C16", Worker: in.Worker, EnumTotal: -1, Faults: map[string]int{}, Probes: map[string]int{}, Cover: map[string]int{}, Policies: map[string]int{}}
	st := &c16Stats{}
	distinct := map[uint64]struct{}{}
	nontrivial := map[uint64]struct{}{}
	found := map[string]*driver.Found{}
	handle := func(p Program, enum bool) {
		driver.Progress()
		st.programs++
		st.maxLen = max(st.maxLen, len(p.Ops))
		h := driver.StrSeed(p.String())
		distinct[h] = struct{}{}
		nested := false
		for _, op := range p.Ops {
			if op.K == "lift" || op.K == "wrap" {
				nested = true
			}
		}
		if nested {
			nontrivial[h] = struct{}{}
		}
		if enum {
			out.EnumRuns++
		} else {
			out.RandomRuns++
		}
		if len(out.Samples) < 3 && nested && len(p.Ops) >= 3 {
			var want []cb
			expected(model(p), 0, &want)
			out.Samples = append(out.Samples, driver.Sample{Outcome: "held; program " + p.String() + " fault-free trace: " + traceStr(want) + fmt.Sprintf("; %d fault positions each checked", len(want))})
		}
		v := checkProgram(p, -1, st)
		if v == nil {
			return
		}
		sig := v.Signature()
		if f := found[sig]; f != nil {
			f.Count++
			return
		}
		if len(found) >= 6 {
			return
		}
		// minimise: drop steps while the same clause and class fail
		cur := p
		for changed := true; changed; {
			changed = false
			for i := range cur.Ops {
				q := Program{A: cur.A, Ops: append(append([]Op(nil), cur.Ops[:i]...), cur.Ops[i+1:]...)}
				if !q.valid() {
					continue
				}
				if w := checkProgram(q, -1, &c16Stats{}); w != nil && w.Clause == v.Clause && w.Class == v.Class {
					cur, v, changed = q, w, true
					break
				}
			}
		}
		f := &driver.Found{Violation: *v, Count: 1, MinSteps: len(cur.Ops)}
		found[sig] = f
		out.Found = append(out.Found, f)
		_ = os.MkdirAll(in.ReplayDir, 0o755)
		name := filepath.Join(in.ReplayDir, fmt.Sprintf("C16-%d-w%d-%d.json", in.Seed, in.Worker, len(out.Found)))
		b, _ := json.MarshalIndent(c16Replay{Property: "C16", Clause: v.Clause, Class: v.Class, Msg: v.Msg, Program: cur}, "", " ")
		os.WriteFile(name, b, 0o644)
		f.Replay = name
	}

	switch in.Mode {
	case "replay":
		b, err := os.ReadFile(in.Replay)
		var rf c16Replay
		if err != nil || json.Unmarshal(b, &rf) != nil || !rf.Program.valid() {
			out.Infra = "bad replay file"
			return out
		}
		v := checkProgram(rf.Program, -1, st)
		var want []cb
		expected(model(rf.Program), 0, &want)
		out.ReplayTrace = append(out.ReplayTrace, "program: "+rf.Program.String(), "model trace: "+traceStr(want))
		if v != nil {
			out.Found = append(out.Found, &driver.Found{Violation: *v, Count: 1, Replay: in.Replay})
			out.Reproduced = v.Clause == rf.Clause
			out.ReplayTrace = append(out.ReplayTrace, v.Msg)
		}
		out.Runs = 1
		return out
	}

	// exhaustive part: all well-typed programs up to length L, dealt to the
	// workers by the index of their first two steps
	L := 5
	if in.Thorough {
		L = 6
	}
	ops := allOps()
	idx := 0
	var rec func(p Program, b int)
	rec = func(p Program, b int) {
		handle(p, true)
		if len(p.Ops) == L {
			return
		}
		for _, op := range ops {
			nb, ok := next(b, op)
			if !ok {
				continue
			}
			q := Program{A: p.A, Ops: append(append([]Op(nil), p.Ops...), op)}
			if len(q.Ops) == 2 {
				idx++
				if idx%in.Workers != in.Worker {
					continue
				}
			}
			rec(q, nb)
		}
	}
	for _, a := range []int{0, 2} {
		// programs of length < 2 are handled by worker 0 only
		if in.Worker == 0 {
			handle(Program{A: a}, true)
		}
		for _, op := range ops {
			nb, ok := next(a, op)
			if !ok {
				continue
			}
			q := Program{A: a, Ops: []Op{op}}
			if in.Worker == 0 {
				handle(q, true)
			}
			for _, op2 := range ops {
				nb2, ok := next(nb, op2)
				if !ok {
					continue
				}
				idx++
				if idx%in.Workers != in.Worker {
					continue
				}
				rec(Program{A: a, Ops: []Op{op, op2}}, nb2)
			}
		}
	}
	out.EnumBases = out.EnumRuns
	// random part: longer programs, deeper nesting
	maxLen := 9
	if in.Thorough {
		maxLen = 14
	}
	for i := in.Worker; i < in.Random; i += in.Workers {
		if in.WallLimit > 0 && time.Since(start) > time.Duration(in.WallLimit)*time.Second {
			break
		}
		r := driver.NewRand(driver.Mix(in.Seed, driver.StrSeed("C16"), uint64(i)))
		handle(genProgram(r, maxLen), false)
	}
	out.Runs = st.visits
	out.Steps = int64(st.visits)
	out.Faults["visitor_callback_error"] = st.faults
	out.Faults["visitor_callback_error_at_enter"] = st.faultAtEnter
	out.Faults["visitor_callback_error_at_leave"] = st.faultAtLeave
	out.Probes["programs"] = st.programs
	out.Probes["max_nesting_depth_of_a_callback"] = st.maxDepth
	out.Probes["max_program_length"] = st.maxLen
	for h := range distinct {
		out.Schedules = append(out.Schedules, h)
	}
	for h := range nontrivial {
		out.NonTrivial = append(out.NonTrivial, h)
	}
	out.WallS = time.Since(start).Seconds()
	return out
}
