package seqprops

import (
	"encoding/json"
	"fmt"
	"os"
	"path/filepath"
	"reflect"
	"slices"
	"sort"
	"strconv"
	"strings"
	"testing"
	"testing/synctest"
	"time"

	"github.com/fogfish/golem/maplike"
	"github.com/fogfish/golem/maplike/skiplist"
	"github.com/fogfish/golem/pure/ord"

	"verif/sim/driver"
)

// C18 — the skip list behaves as an ordered map under any operation history,
// independently of the random node heights. skiplist.New seeds its height
// generator from time.Now().UnixNano(): inside a bubble that is the simulated
// clock, which the run advances by a tape-chosen offset before New, so the
// height sequence is a replayable function of the seed.

type KOp struct {
	K string `json:"k"` // put | get | remove | churn | fill
	I int    `json:"i"` // key index into the universe
	V int    `json:"v,omitempty"`
	// N, for "churn": the number of rounds of Put(k, v), Get(k), Remove(k)
	// over the three keys I, I+1, I+2 in turn — the life of a long-lived list
	// written as one operation (the map model is the same before and after).
	// For "fill": N further keys (outside the universe) are inserted so that
	// they are all live at once, looked up, and removed again.
	N int `json:"n,omitempty"`
}

type History struct {
	Keys   string `json:"keys"`     // int | intrev | string
	ClockN int64  `json:"clock_ns"` // offset of the simulated clock at New
	Ops    []KOp  `json:"ops"`
	// PrintAt, when non-empty, lists the operation indexes after which the
	// printed form is taken and checked (always after the last one); empty:
	// after every operation. Printing is an operation of its own: a list may
	// not remember anything from the previous printing.
	PrintAt []int `json:"print_at,omitempty"`
}

func (h History) String() string { b, _ := json.Marshal(h); return string(b) }

var intUniverse = []int{0, 1, 2, 3, -1, 7, 5, -8, 100, 64, 33, -100, 12, 11, 13, 99, 98, 97, 41, 42, 43, 44, -5, -6, 6, 8, 9, 10, 21, 22, 23, 24, 25, 26, 27, 28, 29, 30, 31, 32, 34, 35, 36, 37, 38, 39, 40, 45, 46, 47, 48, 49, 50, 51, 52, 53, 54, 55, 56, 57, 58, 59, 60, 61}
var strUniverse = []string{"", "a", "10%", "ab", "rate%d", "abc", "b", "%s", "ba", "A", "z", "%", "aa", "aaa", "0", "10", "9", "é", "ab0", "abd", "a%v", "%!d"}

type c18Stats struct {
	histories     int
	ops           int
	maxHeight     int
	removeTall    int
	removeLast    int
	overwriteTall int
	removeOnly    int
	clockOffsets  map[int64]struct{}
}

// parsed printed form
type pnode struct {
	key     string
	fingers []string // "nil" or a key
}

func parseList(s string) ([]pnode, error) {
	lines := strings.Split(strings.TrimRight(s, "\n"), "\n")
	if len(lines) < 2 || !strings.HasPrefix(lines[0], "--- SkipList") {
		return nil, fmt.Errorf("unexpected header %q", lines[0])
	}
	var out []pnode
	for _, l := range lines[1:] {
		if !strings.HasPrefix(l, "{") || !strings.HasSuffix(l, "}") {
			return nil, fmt.Errorf("unexpected line %q", l)
		}
		body := l[1 : len(l)-1]
		i := strings.Index(body, "\t| ")
		if i < 0 {
			return nil, fmt.Errorf("unexpected line %q", l)
		}
		n := pnode{key: body[:i]}
		f := body[i+3:]
		if f != "" {
			parts := strings.Split(f, " ")
			n.fingers = parts[:len(parts)-1]
		}
		out = append(out, n)
	}
	return out, nil
}

// runHistory executes h against the real skip list and a Go map. Must be
// called inside a bubble whose clock the caller controls.
func runHistory[K comparable, V any](h History, universe []K, extra func(int) K, cmp ord.Ord[K], show func(K) string, mk func(int) V, eq func(a, b V) bool, st *c18Stats) (res *driver.Violation) {
	viol := func(clause, class, format string, args ...any) *driver.Violation {
		return &driver.Violation{Property: "C18", Clause: clause, Stage: "skiplist/" + h.Keys, Class: class, Msg: fmt.Sprintf(format, args...)}
	}
	// an operation that panics is a wrong answer, not a crash of the checker
	cur := -1
	defer func() {
		if r := recover(); r != nil {
			res = viol("C18.a", "an operation panicked", "history %v: op %d panicked: %v", h, cur, r)
		}
	}()
	var list maplike.MapLike[K, V] = skiplist.New[K, V](cmp)
	ref := map[K]V{}
	less := func(a, b K) bool { return cmp.Compare(a, b) == ord.LT }
	// statistics use the printed form taken after the previous operation, if
	// any: they never print on their own (printing is an operation too)
	var lastNodes []pnode
	lastAt := -2
	heightNow := func(n int, key string) int {
		if lastAt != n-1 {
			return 0
		}
		for _, nd := range lastNodes {
			if nd.key == key {
				return len(nd.fingers)
			}
		}
		return 0
	}
	for n, op := range h.Ops {
		cur = n
		k := universe[op.I%len(universe)]
		tallBefore := 0
		switch op.K {
		case "put":
			_, existed := ref[k]
			if existed && st != nil {
				tallBefore = heightNow(n, show(k))
			}
			// Put returns the map to go on with (the receiver itself here; the
			// property does not promise that identity, so the result is used)
			list = list.Put(k, mk(op.V))
			ref[k] = mk(op.V)
			if existed && tallBefore >= 2 && st != nil {
				st.overwriteTall++
			}
		case "get":
			got := list.Get(k)
			if want := ref[k]; !eq(got, want) {
				return viol("C18.a", "Get returned a value different from the map model", "history %v: op %d get(%v) = %v, model %v", h, n, show(k), got, want)
			}
		case "fill":
			var zero V
			for j := 0; j < op.N; j++ {
				list = list.Put(extra(j), mk(1+j%7))
			}
			// the list is at its largest now: present and absent keys, and the
			// keys of the universe that the model holds
			for j := 0; j < op.N; j += max(1, op.N/257) {
				if got := list.Get(extra(j)); !eq(got, mk(1+j%7)) {
					return viol("C18.a", "Get returned a value different from the map model", "history %v: op %d, with %d further keys live: get(%v) = %v, model %v", h, n, op.N, show(extra(j)), got, mk(1+j%7))
				}
			}
			if got := list.Get(extra(op.N + 5)); !eq(got, zero) {
				return viol("C18.a", "Get returned a value different from the map model", "history %v: op %d, with %d further keys live: get(absent %v) = %v", h, n, op.N, show(extra(op.N+5)), got)
			}
			for uk, want := range ref {
				if got := list.Get(uk); !eq(got, want) {
					return viol("C18.a", "Get returned a value different from the map model", "history %v: op %d, with %d further keys live: get(%v) = %v, model %v", h, n, op.N, show(uk), got, want)
				}
			}
			for j := op.N - 1; j >= 0; j-- {
				got := list.Remove(extra(j))
				if j%4099 == 0 && !eq(got, mk(1+j%7)) {
					return viol("C18.a", "Remove returned a value different from the map model", "history %v: op %d, removing the further keys: remove(%v) = %v, model %v", h, n, show(extra(j)), got, mk(1+j%7))
				}
			}
		case "churn":
			var zero V
			for j := 0; j < op.N; j++ {
				ck := universe[(op.I+j%3)%len(universe)]
				if _, live := ref[ck]; live {
					continue // the round uses keys that are absent at this point
				}
				v := mk(1 + j%5)
				list = list.Put(ck, v)
				if got := list.Get(ck); !eq(got, v) {
					return viol("C18.a", "Get returned a value different from the map model", "history %v: op %d, churn round %d: get(%v) = %v after put %v", h, n, j, show(ck), got, v)
				}
				if got := list.Remove(ck); !eq(got, v) {
					return viol("C18.a", "Remove returned a value different from the map model", "history %v: op %d, churn round %d: remove(%v) = %v, model %v", h, n, j, show(ck), got, v)
				}
				if j%65536 == 0 {
					if got := list.Get(ck); !eq(got, zero) {
						return viol("C18.a", "Get returned a value different from the map model", "history %v: op %d, churn round %d: get(%v) = %v after remove", h, n, j, show(ck), got)
					}
				}
			}
		case "remove":
			if _, ok := ref[k]; ok && st != nil {
				if heightNow(n, show(k)) >= 3 {
					st.removeTall++
				}
				if len(ref) == 1 {
					st.removeOnly++
				}
				max := true
				for o := range ref {
					if less(k, o) {
						max = false
					}
				}
				if max {
					st.removeLast++
				}
			}
			got := list.Remove(k)
			want := ref[k]
			delete(ref, k)
			if !eq(got, want) {
				return viol("C18.a", "Remove returned a value different from the map model", "history %v: op %d remove(%v) = %v, model %v", h, n, show(k), got, want)
			}
		}
		// C18.b: printed form
		if len(h.PrintAt) > 0 && n != len(h.Ops)-1 {
			at := false
			for _, i := range h.PrintAt {
				at = at || i == n
			}
			if !at {
				continue
			}
		}
		nodes, err := parseList(fmt.Sprint(list))
		if err != nil {
			return viol("C18.b", "printed form cannot be parsed", "history %v: after op %d: %v", h, n, err)
		}
		lastNodes, lastAt = nodes[1:], n
		live := nodes[1:] // the first node is the head sentinel carrying the zero key
		keys := make([]K, 0, len(ref))
		for k := range ref {
			keys = append(keys, k)
		}
		sort.Slice(keys, func(i, j int) bool { return less(keys[i], keys[j]) })
		if len(live) != len(keys) {
			return viol("C18.b", "printed form does not list exactly the live keys", "history %v: after op %d printed %v, model keys %v", h, n, pkeys(live), showAll(keys, show))
		}
		pos := map[string]int{}
		for i, nd := range live {
			if nd.key != show(keys[i]) {
				return viol("C18.b", "printed form does not list exactly the live keys in ascending order", "history %v: after op %d printed %v, model keys %v", h, n, pkeys(live), showAll(keys, show))
			}
			pos[nd.key] = i
		}
		// every printed forward pointer of every node names a strictly larger
		// live key (or nil)
		for i, nd := range nodes {
			for lvl, f := range nd.fingers {
				if f == "nil" {
					continue
				}
				nx, ok := pos[f]
				if !ok {
					return viol("C18.b", "a forward pointer names a key that is not live", "history %v: after op %d: node %q level %d points to %q; live %v", h, n, nd.key, lvl, f, pkeys(live))
				}
				if i > 0 && nx <= i-1 {
					return viol("C18.b", "a forward pointer does not point to a strictly larger key", "history %v: after op %d: node %q (position %d) level %d points to %q (position %d)", h, n, nd.key, i-1, lvl, f, nx)
				}
			}
		}
		// level chains: each level is a sub-chain of level i−1
		all := nodes
		maxLevels := len(all[0].fingers)
		for lvl := 0; lvl < maxLevels; lvl++ {
			cur := -1 // index into live; −1 = head
			for {
				var f []string
				if cur < 0 {
					f = all[0].fingers
				} else {
					f = live[cur].fingers
				}
				if lvl >= len(f) {
					if cur < 0 {
						break
					}
					return viol("C18.b", "a node is linked at a level above its own height", "history %v: after op %d: node %s reached at level %d has %d fingers", h, n, live[cur].key, lvl, len(f))
				}
				if f[lvl] == "nil" {
					break
				}
				nx, ok := pos[f[lvl]]
				if !ok {
					return viol("C18.b", "a forward pointer names a key that is not live", "history %v: after op %d: level %d pointer to %q; live %v", h, n, lvl, f[lvl], pkeys(live))
				}
				if nx <= cur {
					return viol("C18.b", "a forward pointer does not point to a strictly larger key", "history %v: after op %d: level %d pointer from position %d to %d (%q)", h, n, lvl, cur, nx, f[lvl])
				}
				if lvl == 0 && nx != cur+1 {
					return viol("C18.b", "the level-0 chain skips a live key", "history %v: after op %d: level 0 pointer from position %d to %d", h, n, cur, nx)
				}
				if lvl > 0 && len(live[nx].fingers) <= lvl-1 {
					return viol("C18.b", "a level chain is not a sub-chain of the level below", "history %v: after op %d: node %q on level %d has only %d fingers", h, n, live[nx].key, lvl, len(live[nx].fingers))
				}
				cur = nx
			}
		}
		if st != nil {
			for _, nd := range live {
				st.maxHeight = max(st.maxHeight, len(nd.fingers))
			}
		}
	}
	if st != nil {
		st.ops += len(h.Ops)
	}
	return nil
}

func pkeys(ns []pnode) []string {
	out := make([]string, len(ns))
	for i, n := range ns {
		out[i] = n.key
	}
	return out
}

func showAll[K any](ks []K, show func(K) string) []string {
	out := make([]string, len(ks))
	for i, k := range ks {
		out[i] = show(k)
	}
	return out
}

// execHistory dispatches on the key type. Inside a bubble: advances the
// simulated clock to the history's offset first.
func execHistory(h History, st *c18Stats) *driver.Violation {
	if d := time.Duration(h.ClockN) - time.Since(bubbleStart); d > 0 {
		time.Sleep(d)
	}
	idInt := func(v int) int { return v }
	eqInt := func(a, b int) bool { return a == b }
	rev := ord.From[int](func(a, b int) ord.Ordering { return ord.Int.Compare(b, a) })
	switch h.Keys {
	case "int":
		return runHistory[int, int](h, intUniverse, moreInts, ord.Int, strconv.Itoa, idInt, eqInt, st)
	case "intrev":
		return runHistory[int, int](h, intUniverse, moreInts, rev, strconv.Itoa, idInt, eqInt, st)
	case "string":
		return runHistory[string, int](h, strUniverse, moreStrings, ord.String, func(s string) string { return s }, idInt, eqInt, st)
	case "int/slice": // values of a type that cannot be compared with ==
		return runHistory[int, []int](h, intUniverse, moreInts, ord.Int, strconv.Itoa, func(v int) []int { return []int{v} }, slices.Equal[[]int], st)
	case "string/any": // interface values holding maps
		return runHistory[string, any](h, strUniverse, moreStrings, ord.String, func(s string) string { return s },
			func(v int) any { return map[int]bool{v: true} },
			func(a, b any) bool { return reflect.DeepEqual(a, b) }, st)
	}
	return &driver.Violation{Property: "C18", Clause: "infra", Class: "unknown key type " + h.Keys}
}

// keys outside the universes, for "fill"
func moreInts(i int) int       { return 1000 + 3*i }
func moreStrings(i int) string { return "key/" + strconv.Itoa(i) }

var bubbleStart time.Time

// inBubble runs f inside a fresh bubble (fake clock starting at a fixed
// instant).
func inBubble(t *testing.T, f func()) {
	synctest.Test(t, func(t *testing.T) {
		bubbleStart = time.Now()
		f()
	})
}

func genHistory(r *driver.Rand, thorough bool) History {
	h := History{Keys: driver.Pick(r, "int", "int", "intrev", "string", "string", "int/slice", "string/any")}
	h.ClockN = int64(r.Intn(1 << 30))
	uni := driver.Pick(r, 2, 3, 4, 6, 8, 16)
	n := 1 + r.Intn(40)
	if thorough {
		uni = driver.Pick(r, 4, 8, 16, 32, 64)
		n = 1 + r.Intn(driver.Pick(r, 60, 300, 2000))
	}
	if strings.HasPrefix(h.Keys, "string") && uni > len(strUniverse) {
		uni = len(strUniverse)
	}
	mode := r.Intn(6)
	if mode == 5 {
		// one key written again and again without a Remove in between
		n = max(n, 25+r.Intn(60))
	}
	for i := 0; i < n; i++ {
		k := r.Intn(uni)
		var op KOp
		switch mode {
		case 0: // churn on the same keys
			op = KOp{K: driver.Pick(r, "put", "remove", "put", "remove", "get"), I: k % 3, V: r.Intn(5)}
		case 1: // descending inserts then removals
			if i < n/2 {
				op = KOp{K: "put", I: (uni - 1 - i%uni), V: 1 + i}
			} else {
				op = KOp{K: driver.Pick(r, "remove", "remove", "get"), I: k}
			}
		case 5:
			op = KOp{K: "put", I: 1, V: 1 + i%9}
			if r.Chance(1, 12) {
				op = KOp{K: driver.Pick(r, "get", "put"), I: k, V: r.Intn(5)}
			}
		case 2: // duplicates / overwrites
			op = KOp{K: driver.Pick(r, "put", "put", "put", "get", "remove"), I: k, V: r.Intn(3)}
		default:
			op = KOp{K: driver.Pick(r, "put", "get", "remove"), I: k, V: r.Intn(100)}
		}
		h.Ops = append(h.Ops, op)
	}
	if r.Chance(1, 3) {
		// print only now and then
		for i := 0; i < n; i++ {
			if r.Chance(1, 4) {
				h.PrintAt = append(h.PrintAt, i)
			}
		}
		if len(h.PrintAt) == 0 {
			h.PrintAt = []int{0}
		}
	}
	return h
}

func shrinkHistory(h History, fails func(History) bool) History {
	cur := h
	// fewer churn rounds first (they dominate the cost of every attempt)
	for i := range cur.Ops {
		for (cur.Ops[i].K == "churn" || cur.Ops[i].K == "fill") && cur.Ops[i].N > 1 {
			q := cur
			q.Ops = append([]KOp(nil), cur.Ops...)
			q.Ops[i].N = cur.Ops[i].N / 2
			if !fails(q) {
				break
			}
			cur = q
		}
	}
	for chunk := len(cur.Ops) / 2; chunk >= 1; {
		removed := false
		for i := 0; i+chunk <= len(cur.Ops); i++ {
			q := cur
			q.Ops = append(append([]KOp(nil), cur.Ops[:i]...), cur.Ops[i+chunk:]...)
			if fails(q) {
				cur = q
				removed = true
				i--
			}
		}
		if !removed || chunk > len(cur.Ops) {
			chunk /= 2
		}
	}
	return cur
}

func runC18(t *testing.T, in *driver.WorkerIn) *driver.WorkerOut {
	start := time.Now()
	out := &driver.WorkerOut{Prop: "C18", Worker: in.Worker, Faults: map[string]int{}, Probes: map[string]int{}, Cover: map[string]int{}, Policies: map[string]int{}, EnumTotal: -1}
	st := &c18Stats{clockOffsets: map[int64]struct{}{}}
	distinct := map[uint64]struct{}{}
	nontrivial := map[uint64]struct{}{}
	found := map[string]*driver.Found{}
	var pending []History

	if in.Mode == "replay" {
		b, err := os.ReadFile(in.Replay)
		var rf struct {
			Clause  string  `json:"clause"`
			History History `json:"history"`
		}
		if err != nil || json.Unmarshal(b, &rf) != nil {
			out.Infra = "bad replay file"
			return out
		}
		var v *driver.Violation
		inBubble(t, func() { v = execHistory(rf.History, st) })
		out.ReplayTrace = append(out.ReplayTrace, "history: "+rf.History.String())
		if v != nil {
			out.Found = append(out.Found, &driver.Found{Violation: *v, Count: 1, Replay: in.Replay})
			out.Reproduced = v.Clause == rf.Clause
			out.ReplayTrace = append(out.ReplayTrace, v.Msg)
		}
		out.Runs = 1
		return out
	}

	handle := func(h History, enum bool) {
		driver.Progress()
		st.histories++
		st.clockOffsets[h.ClockN] = struct{}{}
		hh := driver.StrSeed(h.String())
		distinct[hh] = struct{}{}
		// non-trivial: removes a present key or overwrites
		present := map[int]bool{}
		nt := false
		for _, op := range h.Ops {
			switch op.K {
			case "put":
				nt = nt || present[op.I]
				present[op.I] = true
			case "remove":
				nt = nt || present[op.I]
				delete(present, op.I)
			}
		}
		if nt {
			nontrivial[hh] = struct{}{}
		}
		if enum {
			out.EnumRuns++
		} else {
			out.RandomRuns++
		}
		if len(out.Samples) < 3 && nt && len(h.Ops) >= 4 {
			out.Samples = append(out.Samples, driver.Sample{Outcome: "held; history " + h.String()})
		}
		v := execHistory(h, st)
		if v == nil {
			return
		}
		if f := found[v.Signature()]; f != nil {
			f.Count++
			return
		}
		pending = append(pending, h)
	}

	// violations are minimised outside the batch bubble: every attempt gets a
	// fresh bubble, so that the simulated clock at New is exactly the
	// history's offset
	settle := func() {
		for _, h := range pending {
			var v *driver.Violation
			inBubble(t, func() { v = execHistory(h, nil) })
			if v == nil {
				out.Infra = "nondeterminism: history " + h.String() + " did not fail again in a fresh bubble"
				return
			}
			sig := v.Signature()
			if f := found[sig]; f != nil {
				f.Count++
				continue
			}
			if len(found) >= 6 {
				continue
			}
			min := shrinkHistory(h, func(q History) bool {
				var w *driver.Violation
				inBubble(t, func() { w = execHistory(q, nil) })
				return w != nil && w.Clause == v.Clause && w.Class == v.Class
			})
			inBubble(t, func() {
				if w := execHistory(min, nil); w != nil {
					v = w
				}
			})
			f := &driver.Found{Violation: *v, Count: 1, MinSteps: len(min.Ops)}
			found[sig] = f
			out.Found = append(out.Found, f)
			_ = os.MkdirAll(in.ReplayDir, 0o755)
			name := filepath.Join(in.ReplayDir, fmt.Sprintf("C18-%d-w%d-%d.json", in.Seed, in.Worker, len(out.Found)))
			b, _ := json.MarshalIndent(map[string]any{"property": "C18", "clause": v.Clause, "class": v.Class, "msg": v.Msg, "history": min}, "", " ")
			os.WriteFile(name, b, 0o644)
			f.Replay = name
		}
		pending = pending[:0]
	}

	// one bubble per batch: the clock only moves forward, so histories are
	// executed in ascending clock order within a batch
	runBatch := func(hs []History, enum bool) {
		sort.SliceStable(hs, func(i, j int) bool { return hs[i].ClockN < hs[j].ClockN })
		inBubble(t, func() {
			for _, h := range hs {
				handle(h, enum)
			}
		})
		settle()
	}

	// exhaustive part: all histories over keys {1,2,3} x values {1,2} up to
	// length L, x clock offsets; dealt to workers by the first two operations
	L := 4
	offsets := []int64{0, 1, 7919, 104729, 1 << 20, 1<<30 + 17}
	if in.Thorough {
		L = 5
		offsets = append(offsets, 3, 999983, 1<<31+11, 1<<33+5)
	}
	var alphabet []KOp
	for k := 1; k <= 3; k++ {
		alphabet = append(alphabet, KOp{K: "put", I: k, V: 1}, KOp{K: "put", I: k, V: 2}, KOp{K: "get", I: k}, KOp{K: "remove", I: k})
	}
	var batch []History
	idx := 0
	for _, op := range alphabet {
		if in.Worker == 0 {
			for _, off := range offsets {
				batch = append(batch, History{Keys: "int", ClockN: off, Ops: []KOp{op}})
			}
		}
		for _, op2 := range alphabet {
			idx++
			if idx%in.Workers != in.Worker {
				continue
			}
			var sub func(ops []KOp)
			sub = func(ops []KOp) {
				for _, off := range offsets {
					batch = append(batch, History{Keys: "int", ClockN: off, Ops: append([]KOp(nil), ops...)})
				}
				if len(batch) >= 20000 {
					runBatch(batch, true)
					batch = batch[:0]
				}
				if len(ops) == L {
					return
				}
				for _, o := range alphabet {
					sub(append(ops, o))
				}
			}
			sub([]KOp{op, op2})
		}
	}
	if len(batch) > 0 {
		runBatch(batch, true)
		batch = batch[:0]
	}
	out.EnumBases = out.EnumRuns
	// one long-lived list: millions of insertions and removals over a handful
	// of keys, framed by ordinary operations (whatever a list counts, grows or
	// pre-allocates per insertion gets used up)
	if in.Worker == in.Workers-1 {
		rounds := 1<<22 + 1<<16
		if in.Thorough {
			rounds = 1<<24 + 1<<16
		}
		for _, keys := range []string{"int", "string"} {
			runBatch([]History{{Keys: keys, ClockN: 12345, PrintAt: []int{0, 4}, Ops: []KOp{
				{K: "put", I: 5, V: 1}, {K: "churn", I: 1, N: rounds}, {K: "get", I: 5}, {K: "fill", N: 1<<21 + 1<<12}, {K: "put", I: 2, V: 3}, {K: "remove", I: 5, V: 1}, {K: "get", I: 2},
			}}}, true)
			if keys == "int" && !in.Thorough {
				break
			}
		}
		out.Probes["long_lived_list_churn_rounds"] = rounds
	}
	// random part
	var rb []History
	for i := in.Worker; i < in.Random; i += in.Workers {
		if in.WallLimit > 0 && time.Since(start) > time.Duration(in.WallLimit)*time.Second {
			break
		}
		r := driver.NewRand(driver.Mix(in.Seed, driver.StrSeed("C18"), uint64(i)))
		rb = append(rb, genHistory(r, in.Thorough))
		if len(rb) >= 500 {
			runBatch(rb, false)
			rb = rb[:0]
		}
	}
	if len(rb) > 0 {
		runBatch(rb, false)
	}
	out.Runs = st.histories
	out.Steps = int64(st.ops)
	out.Probes["max_node_height_seen"] = st.maxHeight
	out.Probes["removed_node_of_height_3_or_more"] = st.removeTall
	out.Probes["removed_the_largest_key"] = st.removeLast
	out.Probes["removed_the_only_key"] = st.removeOnly
	out.Probes["overwrote_key_of_height_2_or_more"] = st.overwriteTall
	out.Probes["distinct_clock_offsets"] = len(st.clockOffsets)
	out.Faults["clock_offset_applied"] = st.histories
	for h := range distinct {
		out.Schedules = append(out.Schedules, h)
	}
	for h := range nontrivial {
		out.NonTrivial = append(out.NonTrivial, h)
	}
	out.WallS = time.Since(start).Seconds()
	return out
}
