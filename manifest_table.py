# Per-property rows merged into gen_manifest.py's table.
CHECKS = {}
PLANNED = {
 "C06": "check not built yet (planned: pipesim fault enumeration, DESIGN §6.2)",
 "C07": "check not built yet (planned: pipesim fault enumeration, DESIGN §6.3)",
 "C08": "check not built yet (planned: pipesim + porcupine, DESIGN §6.4)",
 "C09": "check not built yet (planned: pipesim, DESIGN §6.5)",
 "C10": "check not built yet (planned: pipesim, DESIGN §6.6)",
 "C11": "check not built yet (planned: pipesim virtual clock, DESIGN §6.7)",
 "C12": "check not built yet (planned: pipesim, DESIGN §6.8)",
 "C13": "check not built yet (planned: pipesim virtual clock, DESIGN §6.9)",
 "C16": "check not built yet (planned: seqsim fault enumeration, DESIGN §6.10)",
 "C18": "check not built yet (planned: seqsim, DESIGN §6.11)",
}
