# Per-property rows merged into gen_manifest.py's table.
CHECKS = {
 "C07": dict(engine="pipesim", cat="fault_enumeration", ref="§6.3",
   text="Fault = the user function returning an error. Every subset of failing positions for small inputs (complete for n <= 4, thorough n <= 6) x {Map,FMap,Emit,Unfold} x {Lift,Try} x capacities x base schedules x consumer orders is simulated, plus seeded random longer inputs and failure patterns under all scheduling policies. Oracles are exact: values, errors (identity, order, exactly once), which elements the function was applied to (nothing processed after a fail-fast error), closure of both channels, no blocked library goroutine.",
   technique="deterministic simulation with fault injection: exhaustive failing-position subsets x seeded schedules of the instrumented real stages; exact list-model oracle"),
 "C08": dict(engine="pipesim", cat="exploration", ref="§6.4",
   text="Seeded simulation of the real pump goroutine and queue (sync.Pool replaced by a deterministic free list with injectable eviction) with 1-3 senders and 1-2 receivers: cancel swept over every step for small shapes, random cancel/close-by-sender/abandonment/bursts otherwise. Oracles: senders never blocked, online FIFO + no duplicate + nothing invented, porcupine linearizability against a sequential FIFO queue, completeness of delivery after cancel and after sender close, no library panic.",
   technique="deterministic simulation with fault injection; history checked online and with porcupine (linearizability vs FIFO queue model)"),
 "C06": dict(engine="pipesim", cat="fault_enumeration", ref="§6.2",
   text="Fault enumeration inside the deterministic simulator: for every stage x capacity x small input x base schedule the fault-free run is re-run with the cancel injected before every scheduler step and with every consumer walking away after every element count (complete for that sub-space), plus seeded random plans mixing cancel (step / virtual time / at quiescence), abandonment, never-closing inputs, stalls and select arbitration. Oracles: no library panic, online prefix of the uncancelled result, closure and goroutine exit after close+drain, and after cancel+close with nobody receiving.",
   technique="deterministic simulation with fault injection: cancel/abandon swept over every step of seeded schedules of the instrumented real stages; prefix + closure + leak oracles"),
}
PLANNED = {
 "C06": "check not built yet (planned: pipesim fault enumeration, DESIGN §6.2)",
 "C07": "check not built yet (planned: pipesim fault enumeration, DESIGN §6.3)",
 "C08": "check not built yet (planned: pipesim + porcupine, DESIGN §6.4)",
 "C09": "check not built yet (planned: pipesim, DESIGN §6.5)",
 "C10": "check not built yet (planned: pipesim, DESIGN §6.6)",
 "C11": "check not built yet (planned: pipesim virtual clock, DESIGN §6.7)",
 "C12": "check not built yet (planned: pipesim, DESIGN §6.8)",
 "C13": "check not built yet (planned: pipesim virtual clock, DESIGN §6.9)",
 "C16": "check not built yet (planned: seqsim fault enumeration, DESIGN §6.10)",
 "C18": "check not built yet (planned: seqsim, DESIGN §6.11)",
}
