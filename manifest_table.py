# Per-property rows merged into gen_manifest.py's table.
CHECKS = {
 "C06": dict(engine="pipesim", cat="fault_enumeration", ref="§6.2",
   text="Fault enumeration inside the deterministic simulator: for every stage x capacity x small input x base schedule the fault-free run is re-run with the cancel injected before every scheduler step and with every consumer walking away after every element count (complete for that sub-space), plus seeded random plans mixing cancel (step / virtual time / at quiescence), abandonment, never-closing inputs, stalls and select arbitration. Oracles: no library panic, online prefix of the uncancelled result, closure and goroutine exit after close+drain, and after cancel+close with nobody receiving.",
   technique="deterministic simulation with fault injection: cancel/abandon swept over every step of seeded schedules of the instrumented real stages; prefix + closure + leak oracles"),
}
PLANNED = {
 "C06": "check not built yet (planned: pipesim fault enumeration, DESIGN §6.2)",
 "C07": "check not built yet (planned: pipesim fault enumeration, DESIGN §6.3)",
 "C08": "check not built yet (planned: pipesim + porcupine, DESIGN §6.4)",
 "C09": "check not built yet (planned: pipesim, DESIGN §6.5)",
 "C10": "check not built yet (planned: pipesim, DESIGN §6.6)",
 "C11": "check not built yet (planned: pipesim virtual clock, DESIGN §6.7)",
 "C12": "check not built yet (planned: pipesim, DESIGN §6.8)",
 "C13": "check not built yet (planned: pipesim virtual clock, DESIGN §6.9)",
 "C16": "check not built yet (planned: seqsim fault enumeration, DESIGN §6.10)",
 "C18": "check not built yet (planned: seqsim, DESIGN §6.11)",
}
