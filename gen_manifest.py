#!/usr/bin/env python3
"""Writes MANIFEST.json from the table below (kept as a script so that the
manifest stays consistent while checks are added)."""
import json

NA = {
 "C01": "pure function of (struct type, field, value): no schedule, clock, fault or shared state for a simulator to own (DESIGN §5)",
 "C02": "pure: derivation accepts or panics as a function of type arguments and names only; nothing to schedule or fail (DESIGN §5)",
 "C03": "pure reflection over a type; deterministic and single-threaded (DESIGN §5)",
 "C04": "pure single-threaded composition of C01 optics; quantifier ranges over programs and inputs only (DESIGN §5)",
 "C14": "pure single-threaded iterator algebra (trait/seq); no concurrency, time, I/O or fault seam (DESIGN §5)",
 "C15": "pure single-threaded iterator algebra (trait/pair); same as C14 (DESIGN §5)",
 "C17": "pure functions of two or three values (Eq/Ord/ContraMap/Monoid laws) (DESIGN §5)",
 "C19": "pure persistent sequence ADT; no randomness, clock or concurrency (DESIGN §5)",
 "C20": "pure function composition (PipeN order) (DESIGN §5)",
}

PIPESIM_NOTE = ("Trusted: Go 1.26.8 testing/synctest (fake clock, quiescence), reflect channel operations being equivalent to the "
  "statements they replace, the AST instrumenter (rewrites listed in DESIGN §3.3). Sampled, not enumerated, beyond the small "
  "enumerated sub-spaces named in the evidence file; zero-cost computation on the virtual clock.")

CHECKS = {
 "C05": dict(engine="pipesim", cat="exploration", ref="§6.1",
   text="Seeded deterministic simulation of the real (instrumented) stage goroutines against list-function models: every sequential stage x capacities x small inputs x six base schedules enumerated, then tens of thousands (thorough: millions) of random plans and schedules; exact equality of delivered sequences, closure, goroutine exit, Take's consumption bound. Evidence over sampled schedules, not a proof.",
   technique="deterministic simulation: seeded one-goroutine-at-a-time scheduler over AST-instrumented real code in a synctest bubble, list-model oracle"),
}

PLANNED = {}

def main():
    checks = []
    for pid in sorted(CHECKS):
        c = CHECKS[pid]
        checks.append({
          "property_id": pid,
          "quick_cmd": f"/verif/run_check.sh {pid} quick",
          "thorough_cmd": f"/verif/run_check.sh {pid} thorough",
          "evidence_file": f"/verif/evidence/{pid}.json",
          "replay_cmd_template": f"/verif/run_check.sh {pid} replay {{path}}",
          "engine": c["engine"],
          "level_claimed": {"category": c["cat"], "text": c["text"], "design_ref": "DESIGN.md " + c["ref"]},
          "level_note": c.get("note", PIPESIM_NOTE),
          "technique": c["technique"],
        })
    na = [{"property_id": k, "reason": v} for k, v in sorted(NA.items())]
    for k, v in sorted(PLANNED.items()):
        na.append({"property_id": k, "reason": v})
    m = {
      "version": 1,
      "setup_cmd": "/verif/setup.sh",
      "hooks": {
        "guard": "none: no hook is committed to /repo; every seam is inserted by /verif/sim/instrument into a scratch copy of the working tree at check time",
        "enable": "automatic: each check copies /repo/pipe, /repo/pure (or duct, internal/maplike) to a scratch directory, rewrites go/chan/select/close/sync/time operations to verif/sim/simrt calls and builds the worker against the copy with -modfile",
        "baseline_off_cmd": "for m in duct hseq optics pipe pure trait; do (cd /repo/$m && GOFLAGS=-mod=mod go test -json -vet=off -count=1 -timeout 25m ./...); done",
        "source_commits": [],
        "add_only": True,
      },
      "engines": [
        {"name": "pipesim", "path": "/verif/sim", "serves_properties": [p for p in sorted(CHECKS) if CHECKS[p]["engine"] == "pipesim"],
         "kind_free_text": "deterministic simulation with fault injection: real pipe/fork code, AST-instrumented scratch copy, one goroutine at a time inside a testing/synctest bubble, seeded tape decides task choice, select arbitration, preemption, faults; virtual clock"},
        {"name": "seqsim", "path": "/verif/sim", "serves_properties": [p for p in sorted(CHECKS) if CHECKS[p]["engine"] == "seqsim"],
         "kind_free_text": "single-threaded simulation: fault injection at the visitor-callback seam (C16) and simulated clock as the randomness seam of the skip list (C18)"},
      ],
      "checks": checks,
      "not_applicable": na,
      "notes": "Known findings and repaired defects: /verif/known_findings.json (four defects repaired by fix: commits, none open). Replay files: /verif/replays/. Exit 2 of a check means infrastructure trouble (build, instrumentation, watchdog, nondeterminism), never a verdict. Seeded breaking changes with demonstrations: /verif/seeded/ (tools/regress.sh); behaviour-preserving changes that must stay silent: /verif/correct/ (tools/regress_correct.sh). Self-tests: bin/check selftest determinism <id>; bin/check <id> --uninstrumented.",
    }
    json.dump(m, open("/verif/MANIFEST.json", "w"), indent=1)
    print("wrote MANIFEST.json:", len(checks), "checks,", len(na), "not applicable")

if __name__ == "__main__":
    import sys
    sys.path.insert(0, "/verif")
    try:
        import manifest_table as t
        CHECKS.update(t.CHECKS); PLANNED.update(t.PLANNED)
        for k in t.CHECKS: PLANNED.pop(k, None)
    except ImportError:
        pass
    main()
