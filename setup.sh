#!/bin/sh
# Builds the orchestrator and warms the Go build cache. Offline, from files on disk only.
set -e
export GOFLAGS=-mod=mod GOPROXY=off GOSUMDB=off GOTOOLCHAIN=local GOWORK=off
cd /verif/sim
mkdir -p /verif/bin /verif/evidence /verif/replays
go1.26.8 build -o /verif/bin/check ./cmd/check
# warm: std + harness packages (the checks rebuild the worker against the staged tree every time)
go1.26.8 test -c -o /dev/null ./props/pipeprops
go1.26.8 test -c -o /dev/null ./props/seqprops 2>/dev/null || true
echo setup ok
