#!/bin/sh
# usage: run_check.sh <property> quick|thorough     |  run_check.sh <property> replay <file>
# VERIF_HOME / VERIF_REPO redirect to snapshots for background runs; defaults are /verif and /repo.
export GOFLAGS=-mod=mod GOPROXY=off GOSUMDB=off GOTOOLCHAIN=local GOWORK=off
H="${VERIF_HOME:-/verif}"
export VERIF_HOME="$H"
cd "$H" || exit 2
if [ ! -x "$H/bin/check" ] || [ -n "$(find "$H/sim/cmd" "$H/sim/instrument" "$H/sim/driver" -newer "$H/bin/check" -name '*.go' 2>/dev/null | head -1)" ]; then
  mkdir -p "$H/bin"
  (cd "$H/sim" && go1.26.8 build -o "$H/bin/check" ./cmd/check) || { echo "INFRA: cannot build $H/bin/check"; exit 2; }
fi
case "$2" in
  replay) exec "$H/bin/check" "$1" --replay "$3" ;;
  *) exec "$H/bin/check" "$1" --tier "${2:-quick}" ;;
esac
