#!/bin/sh
# usage: run_check.sh <property> quick|thorough     |  run_check.sh <property> replay <file>
export GOFLAGS=-mod=mod GOPROXY=off GOSUMDB=off GOTOOLCHAIN=local GOWORK=off
cd /verif
if [ ! -x /verif/bin/check ] || [ -n "$(find /verif/sim/cmd /verif/sim/instrument /verif/sim/driver -newer /verif/bin/check -name '*.go' 2>/dev/null | head -1)" ]; then
  (cd /verif/sim && go1.26.8 build -o /verif/bin/check ./cmd/check) || { echo "INFRA: cannot build /verif/bin/check"; exit 2; }
fi
case "$2" in
  replay) exec /verif/bin/check "$1" --replay "$3" ;;
  *) exec /verif/bin/check "$1" --tier "${2:-quick}" ;;
esac
