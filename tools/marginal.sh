#!/bin/bash
# usage: marginal.sh <seeded-id>...   — bulk phase only (--no-iso): how many violating runs does the quick tier see?
for id in "$@"; do
  prop=${id%%-*}
  echo "$id: $(EXTRA=--no-iso /verif/tools/evalmut.sh /verif/seeded/$id/patch.diff $prop 2>&1 | tr '\n' ' ' | cut -c1-200)"
done
