#!/bin/bash
# usage: demo.sh <worktree> <patch.diff> <demo file> <dest path relative to worktree> <test command (run in dir of dest)>
# Confirms: existing tests pass with the patch; demo fails with the patch and passes without it.
set -u
wt="$1"; patch="$2"; demo="$3"; dest="$4"; shift 4
export GOFLAGS=-mod=mod GOPROXY=off GOSUMDB=off
cd "$wt" || exit 2
git checkout -q -- . ; rm -f "$dest"
echo "== without patch: demo"
cp "$demo" "$dest"; (cd "$(dirname "$dest")" && "$@" >/tmp/demo.out 2>&1); echo "exit=$? (want 0)"; tail -3 /tmp/demo.out
git apply "$patch" || { echo "patch does not apply"; exit 2; }
echo "== with patch: demo"
(cd "$(dirname "$dest")" && "$@" >/tmp/demo.out 2>&1); echo "exit=$? (want non-zero)"; tail -5 /tmp/demo.out
rm -f "$dest"
echo "== with patch: build + existing tests"
(cd "$(dirname "$dest")" && go build ./... && go test -vet=off -count=1 ./... 2>&1 | tail -4)
git checkout -q -- .
