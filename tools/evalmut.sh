#!/bin/bash
# usage: evalmut.sh <patch.diff> <prop> [<prop>...]
# Applies a seeded change to /repo, runs the given checks (quick tier) and undoes the change.
# Prints one line per check: "<prop> exit=<code> <first violation line>".
set -u
patch="$1"; shift
export GOFLAGS=-mod=mod GOPROXY=off GOSUMDB=off GOTOOLCHAIN=local
cd /repo || exit 2
if [ -n "$(git status --porcelain)" ]; then echo "/repo is dirty"; exit 2; fi
git apply "$patch" || { echo "patch does not apply"; exit 2; }
trap 'git -C /repo checkout -- . ; git -C /repo clean -fdq' EXIT
for p in "$@"; do
  out=$(/verif/bin/check "$p" --tier "${TIER:-quick}" --no-evidence ${EXTRA:-} 2>&1)
  code=$?
  echo "$p exit=$code $(echo "$out" | grep -m1 -E '^violation:|INFRA' | cut -c1-300)"
done
