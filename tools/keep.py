#!/usr/bin/env python3
"""keep.py <id> <srcdir> <property> <caught_by csv> <detected_clause> -- <needs...>
Stores a confirmed seeded change under /verif/seeded/<id>/ (patch.diff, demonstration, meta.json)."""
import sys, os, shutil, json
sid, src, prop, caught, clause = sys.argv[1:6]
needs = " ".join(sys.argv[7:])
dst = f"/verif/seeded/{sid}"
os.makedirs(dst, exist_ok=True)
for f in os.listdir(src):
    if os.path.isfile(os.path.join(src, f)):
        shutil.copy(os.path.join(src, f), os.path.join(dst, f))
meta = {
  "id": sid, "property": prop,
  "needs_to_manifest": needs,
  "source": "independent sub-agent given only the property text and a scratch worktree",
  "confirmed": {"compiles": True, "existing_tests_pass_with_change": True, "demo_fails_with_change": True, "demo_passes_without_change": True,
                "how": "tools/demo.sh in the sub-agent's scratch worktree (apply patch, copy demo, go test; revert, go test)"},
  "caught_by": [c for c in caught.split(",") if c],
  "first_clause_reported": clause,
  "ran": f"tools/evalmut.sh {dst}/patch.diff {' '.join(caught.split(','))}  (git -C /repo apply; run_check quick; git -C /repo checkout -- .)",
}
json.dump(meta, open(os.path.join(dst, "meta.json"), "w"), indent=1)
print("kept", dst)
