#!/bin/bash
# (every result line, with the number of violating runs, is appended to $REGRESS_LOG, default /tmp/regress.full)
# re-runs every stored seeded change against the check of its property; prints the ones NOT caught
cd /verif
fail=0
for d in seeded/*/; do
  id=$(basename $d); prop=${id%%-*}
  # the check that catches it, when that is not the check of the property the author aimed at
  cb=$(python3 -c "import json;m=json.load(open('/verif/$d/meta.json'));c=m.get('caught_by') or [];print(c[0] if c and '$prop' not in c else '')")
  if [ -n "$cb" ]; then prop=$cb; fi
  out=$(timeout 900 tools/evalmut.sh /verif/${d}patch.diff $prop)
  echo "$id: $out" >> ${REGRESS_LOG:-/tmp/regress.full}
  if grep -q expected_not_caught $d/meta.json; then continue; fi; if ! echo "$out" | grep -q "^$prop exit=1"; then echo "NOT CAUGHT: $id: $out"; fail=1; fi
done
echo "regression done fail=$fail"
