#!/usr/bin/env python3
"""Regenerates the table of DESIGN.md §10.4 from seeded/*/meta.json (in place)."""
import json, glob, re
def order(i):
    m = re.match(r'(C\d+)-(?:w(\d+))?m(\d+)', i)
    return (m.group(1), int(m.group(2) or 1), int(m.group(3)))
metas = sorted((json.load(open(f)) for f in glob.glob('/verif/seeded/*/meta.json')), key=lambda m: order(m['id']))
rows = ['| seeded change | breaks | what it needs in order to manifest | caught by (quick tier) | first clause reported | note |', '|---|---|---|---|---|---|']
for m in metas:
    fc = m.get('first_clause_reported') or {}
    if isinstance(fc, dict):
        fc = '; '.join(f'{k}: {v}' for k, v in fc.items()) or '—'
    caught = ', '.join(m.get('caught_by') or []) or '—'
    note = m.get('history', '')
    esc = lambda s: str(s).replace('|', '\\|').replace('\n', ' ')
    rows.append(f"| `{m['id']}` | {m['property']} | {esc(m['needs_to_manifest'])} | {caught} | {esc(fc)} | {esc(note)} |")
p = '/verif/DESIGN.md'
lines = open(p).read().split('\n')
s = next(i for i, l in enumerate(lines) if l.startswith('| seeded change'))
e = s
while e < len(lines) and lines[e].startswith('|'):
    e += 1
lines[s:e] = rows
open(p, 'w').write('\n'.join(lines))
print(len(metas), 'rows')
