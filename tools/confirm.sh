#!/bin/bash
# usage: confirm.sh <prop> <k>   — confirms a sub-agent's change in its scratch worktree /tmp/wt-<prop>
# (existing tests pass with the patch; demo fails with it and passes without it). Uses go1.26.8.
prop=$1; k=$2
wt=${WT_PREFIX:-/tmp/wt}-$prop; d=$wt/out/m$k
export GOFLAGS=-mod=mod GOPROXY=off GOSUMDB=off GOTOOLCHAIN=local
GO=go1.26.8
case $prop in
  C09|C10) dest=pipe/fork/zz_demo_test.go; moddir=pipe; pkg=./fork ;;
  C16) dest=duct/zz_demo_test.go; moddir=duct; pkg=. ;;
  C18) dest=""; ;;
  *) dest=pipe/zz_demo_test.go; moddir=pipe; pkg=. ;;
esac
# the demo says itself which package it belongs to
if [ -n "$dest" ] && [ "$prop" != C16 ]; then
  if grep -qE '^package fork(_test)?$' $d/demo_test.go; then dest=pipe/fork/zz_demo_test.go; pkg=./fork; else dest=pipe/zz_demo_test.go; pkg=.; fi
fi
names=$(grep -ohE '^func (Test[A-Za-z0-9_]+)' $d/demo_test.go | awk '{print $2}' | paste -sd'|')
cd $wt && git checkout -q -- . && git clean -fdq -e out
run_demo() {
  if [ "$prop" = C18 ]; then
    rm -rf $wt/out/cstage && mkdir -p $wt/out/cstage && cp -r internal/maplike/. $wt/out/cstage/
    printf 'module github.com/fogfish/golem/maplike\n\ngo 1.21\n\nrequire (\n\tgithub.com/fogfish/golem/pure v0.10.1\n\tgithub.com/fogfish/it v1.0.0\n)\n\nreplace github.com/fogfish/golem/pure => %s/pure\n' $wt > $wt/out/cstage/go.mod
    cp pure/go.sum $wt/out/cstage/go.sum
    cp $d/demo_test.go $wt/out/cstage/skiplist/zz_demo_test.go
    (cd $wt/out/cstage && $GO test -vet=off -count=1 -run "^($names)\$" ./skiplist >/tmp/confirm.out 2>&1); rc=$?
    if [ "$1" = suite ]; then rm $wt/out/cstage/skiplist/zz_demo_test.go; (cd $wt/out/cstage && $GO test -vet=off -count=1 ./... >/tmp/confirm.suite 2>&1); src=$?; fi
    rm -rf $wt/out/cstage
  else
    cp $d/demo_test.go $dest
    (cd $moddir && $GO test -vet=off -count=1 -run "^($names)\$" $pkg >/tmp/confirm.out 2>&1); rc=$?
    rm -f $dest
    if [ "$1" = suite ]; then (cd $moddir && $GO build ./... && $GO test -vet=off -count=1 ./... >/tmp/confirm.suite 2>&1); src=$?
      if [ $src -ne 0 ]; then sleep 2; (cd $moddir && $GO test -vet=off -count=1 ./... >/tmp/confirm.suite 2>&1); src=$?; fi
    fi
  fi
}
run_demo; without=$rc
git apply $d/patch.diff || { echo "$prop m$k: PATCH DOES NOT APPLY"; exit 1; }
run_demo suite; with=$rc; suite=$src
git checkout -q -- . ; git clean -fdq -e out
echo "$prop m$k: demo without patch exit=$without (want 0); with patch exit=$with (want !=0); existing suite with patch exit=$suite (want 0) [$(grep -E '^(FAIL|--- FAIL)' /tmp/confirm.suite | head -3 | tr '\n' ' ')]"
