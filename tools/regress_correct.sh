#!/bin/bash
# applies every stored behaviour-preserving change and runs the checks listed in its meta.json: all must exit 0
cd /verif
fail=0
for d in correct/*/; do
  id=$(basename $d)
  cl=$(python3 -c "import json;print(' '.join(json.load(open('/verif/$d/meta.json'))['checks_run']))")
  out=$(timeout 1800 tools/evalmut.sh /verif/${d}patch.diff $cl)
  git -C /repo clean -fdq
  if echo "$out" | grep -qv "exit=0"; then echo "ALARM on correct change $id: $out"; fail=1; fi
done
echo "correct-change regression done fail=$fail"
